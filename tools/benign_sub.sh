#!/bin/bash
# benign_sub.sh <patch...>: behaviour-preserving patches against C06 C07 C13 C17 on private copies of /repo, four at a time (PASS/ALARM per patch)
export GOFLAGS=-mod=mod GOPROXY=off GOSUMDB=off GOTOOLCHAIN=local
cd /verif
k=0
for f in "$@"; do
  k=$((k+1))
  (
  repo=/tmp/bs-repo-$k; rm -rf $repo; rsync -a --exclude .git /repo/ $repo/; (cd $repo && git init -q && git add -A >/dev/null 2>&1 && git -c user.name=x -c user.email=x@x commit -qm base >/dev/null 2>&1)
  pf=$(realpath $f); (cd $repo && git apply $pf) || { echo "CANNOT-APPLY $f"; rm -rf $repo; exit; }
  alarms=""
  for id in C06 C07 C13 C17; do
    out=$(VERIF_OUT_TAG=-b$k ./check $id --no-evidence --repo $repo 2>&1); rc=$?
    [ $rc -ne 0 ] && alarms="$alarms $id:$(echo "$out" | grep -m3 '^VIOLATION\|ENGINE\|STALE' | sed 's/.*replays\///; s/\.json.*//' | tr '\n' ',')"
  done
  if [ -z "$alarms" ]; then echo "PASS $f"; else echo "ALARM $f:$alarms"; fi
  rm -rf $repo /verif/out/*-b$k
  ) &
  if [ $((k % 4)) -eq 0 ]; then wait; fi
done
wait
