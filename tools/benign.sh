#!/bin/bash
# benign.sh <patch>...: must-pass corpus. Applies each behaviour-preserving change to /repo's working tree, runs every
# claimed quick check, undoes it. Any VIOLATION here is a false alarm (or the change is not behaviour-preserving after all).
cd /verif
for p in "$@"; do
  p=$(realpath "$p"); name=$(basename $(dirname $p))/$(basename $p)
  git -C /repo apply "$p" || { echo "$name: cannot apply"; continue; }
  ids=$(python3 -c "import json;print(' '.join(c['property_id'] for c in json.load(open('MANIFEST.json'))['checks']))")
  # three checks at a time (each check already runs its solvers in parallel)
  alarms=$(echo $ids | tr ' ' '\n' | xargs -P 3 -I{} sh -c 'out=$(./check {} --no-evidence 2>&1); rc=$?; if [ $rc -ne 0 ]; then echo " {}:$(echo "$out" | grep -m2 "^VIOLATION\|ENGINE" | sed "s/.*replays\///; s/\.json.*//" | tr "\n" ",")"; fi' | sort | tr -d '\n')
  git -C /repo apply -R "$p"
  if [ -z "$alarms" ]; then echo "PASS $name"; else echo "ALARM $name:$alarms"; fi
done
