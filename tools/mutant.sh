#!/bin/bash
# mutant.sh <patch-file|revert:COMMIT> <property>... : apply a change to /repo, run the quick checks, undo it.
p="$1"; shift
p0="$p"; [[ "$p" != revert:* ]] && p=$(realpath "$p"); cd /repo
if [[ "$p" == revert:* ]]; then
  git show "${p#revert:}" -- . ':!verif_contracts.go' ':!cmd/opgen/verif_contracts.go' > /tmp/mut.$$.diff
  git apply -R /tmp/mut.$$.diff || { echo "cannot revert"; exit 2; }
  undo() { git -C /repo apply /tmp/mut.$$.diff; rm -f /tmp/mut.$$.diff; }
else

  git apply "$p" || { echo "cannot apply"; exit 2; }
  undo() { git -C /repo apply -R "$p"; }
fi
for id in "$@"; do
  out=$(/verif/check $id --no-evidence 2>&1); rc=$?
  echo "$id exit=$rc $(echo "$out" | grep -c '^VIOLATION') violation line(s); $(echo "$out" | grep -c 'no-failing-input-found') without input; $(echo "$out" | tail -1)"
  echo "$out" | grep '^VIOLATION' | head -${MUT_SHOW:-3}
done
undo
