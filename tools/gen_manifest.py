#!/usr/bin/env python3
"""Regenerates /verif/MANIFEST.json from spec/properties.json and tools/manifest_meta.json."""
import json, subprocess, os
V = '/verif'
props = [json.loads(l) for l in open(f'{V}/properties.jsonl')]
cfg = json.load(open(f'{V}/spec/properties.json'))
meta = json.load(open(f'{V}/tools/manifest_meta.json'))
hook_commits = subprocess.run(['git', '-C', '/repo', 'log', '--format=%H', '--grep=^verif hook'], capture_output=True, text=True).stdout.split()
checks, na = [], []
for p in props:
    i = p['id']
    m = meta.get(i, {})
    if i in cfg and m.get('claimed', True):
        checks.append({
            'property_id': i,
            'quick_cmd': f'./check {i} --tier quick',
            'thorough_cmd': f'./check {i} --tier thorough',
            'evidence_file': f'/verif/evidence/{i}.json',
            'replay_cmd_template': f'./check {i} --replay {{path}}',
            'engine': 'govc',
            'level_claimed': {'category': cfg[i].get('level', 'proof'), 'text': m.get('level_text', ''), 'design_ref': m.get('design_ref', 'DESIGN.md §11 ' + i + ' (plan) and §17 (as built)')},
            'level_note': m.get('level_note', ''),
            'technique': m.get('technique', 'contract-based deductive verification: weakest-precondition VCs over go/ssa, discharged by z3/cvc5'),
        })
    else:
        na.append({'property_id': i, 'reason': m.get('na_reason', 'check not built yet in this session; contracts for the functions this property depends on are not yet discharged')})
man = {
    'version': 1,
    'setup_cmd': 'cd /verif/govc && GOFLAGS=-mod=vendor GOPROXY=off GOSUMDB=off GOTOOLCHAIN=local go build -o /verif/bin/govc .',
    'hooks': {
        'guard': 'verif',
        'enable': 'go build tag: -tags verif. Files behind it: verif_contracts.go and cmd/opgen/verif_contracts.go (contract comments only, read by govc) and verif_hooks.go (proof-carrier code: lemma functions whose loop invariants carry inductions, round-trip clients; compiled only under the tag, never part of the library build)',
        'baseline_off_cmd': "cd /repo && GOFLAGS=-mod=mod GOPROXY=off GOSUMDB=off go test -json -vet=off -count=1 -timeout 25m ./...",
        'source_commits': hook_commits,
        'add_only': True,
    },
    'engines': [
        {'name': 'govc', 'path': '/verif/govc', 'serves_properties': [c['property_id'] for c in checks],
         'kind_free_text': 'self-written deductive verifier for Go: contracts (//@ comments in /repo/verif_contracts.go, build tag verif) + spec prelude (/verif/spec/*.smt2); VCs by forward symbolic execution of go/ssa cut at loop invariants; one SMT-LIB query per obligation and path, raced on z3 4.8.12, z3 5.1.0, cvc5 1.0; frame/effect/secrecy obligations by a modular dataflow engine; ground obligations by evaluation of the typed AST; counter-models replayed on the real code via go test -overlay'}
    ],
    'checks': checks,
    'not_applicable': na,
    'notes': 'Every check rebuilds its obligations from /repo\'s current working tree (go/packages load with -tags verif). See DESIGN.md.',
}
json.dump(man, open(f'{V}/MANIFEST.json', 'w'), indent=1)
print('checks:', [c['property_id'] for c in checks], 'not_applicable:', len(na))
