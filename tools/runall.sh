#!/bin/bash
# runall.sh [tier]: every claimed check once on /repo's working tree; prints one line per property.
cd /verif
tier=${1:-quick}
rc=0
for id in $(python3 -c "import json;print(' '.join(c['property_id'] for c in json.load(open('MANIFEST.json'))['checks']))"); do
  out=$(./check $id --tier $tier 2>&1); r=$?
  echo "$id rc=$r $(echo "$out" | tail -1)"
  echo "$out" | grep -E '^(VIOLATION|KNOWN-FINDING|ENGINE-ERROR)' | head -5
  [ $r -ne 0 ] && rc=1
done
exit $rc
