#!/bin/bash
# verify_seed.sh <src-dir (contains patch.diff, demo_test.go|demo.sh, meta.json)> <name>
# Confirms in a scratch worktree of /repo: patch applies, builds, existing tests pass (3x),
# demo fails with the patch and passes without. On success copies to /verif/seeded/<name>/.
export GOFLAGS=-mod=mod GOPROXY=off GOSUMDB=off GOTOOLCHAIN=local
src="$1"; name="$2"
wt=$(mktemp -d /tmp/seedwt-XXXXXX)
git -C /repo worktree add -q --detach "$wt" HEAD || exit 2
cleanup() { git -C /repo worktree remove --force "$wt" 2>/dev/null; rm -rf "$wt"; }
trap cleanup EXIT
cd "$wt"
log=""
run_demo() {
  if [ -f "$src/demo_test.go" ]; then
    cp "$src/demo_test.go" "$wt/zz_seed_demo_test.go"
    go test -vet=off -count=1 -timeout 300s -run 'Seed|Demo|Test' . >/tmp/demo.$$ 2>&1; rc=$?
    # run only the demo's tests
    tests=$(grep -o '^func Test[A-Za-z0-9_]*' "$src/demo_test.go" | sed 's/func //' | paste -sd'|')
    go test -vet=off -count=1 -timeout 300s -run "^($tests)\$" . >/tmp/demo.$$ 2>&1; rc=$?
    rm -f "$wt/zz_seed_demo_test.go"
  else
    (cd "$wt" && SEED_WT="$wt" bash "$src/demo.sh" "$wt") >/tmp/demo.$$ 2>&1; rc=$?
  fi
  rm -f /tmp/demo.$$
  return $rc
}
git apply "$src/patch.diff" || { echo "$name: patch does not apply"; exit 1; }
go build ./... || { echo "$name: does not build"; exit 1; }
for i in 1 2 3; do go test -vet=off -count=1 ./... >/dev/null 2>&1 || { echo "$name: existing tests FAIL with patch"; exit 1; }; done
if run_demo; then echo "$name: demo PASSES with patch (should fail)"; exit 1; fi
git apply -R "$src/patch.diff" || { echo "$name: cannot unapply"; exit 1; }
if ! run_demo; then echo "$name: demo FAILS without patch (should pass)"; exit 1; fi
mkdir -p /verif/seeded/$name
cp "$src/patch.diff" /verif/seeded/$name/
[ -f "$src/demo_test.go" ] && cp "$src/demo_test.go" /verif/seeded/$name/
[ -f "$src/demo.sh" ] && cp "$src/demo.sh" /verif/seeded/$name/
python3 - "$src/meta.json" /verif/seeded/$name/meta.json <<'PY'
import json,sys
m=json.load(open(sys.argv[1]))
m['confirmed_by_main']=['applied patch.diff in a scratch worktree of /repo HEAD','go build ./... ok','go test -vet=off -count=1 ./... passed 3 times with the patch','demo failed with the patch','demo passed without the patch']
json.dump(m,open(sys.argv[2],'w'),indent=1)
PY
echo "$name: CONFIRMED"
