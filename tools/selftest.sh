#!/bin/bash
# selftest.sh [ids...]: must-fail corpus. Applies every seeded change (seeded/<Cxx>-<A|B>/patch.diff) and every
# reverted fix: commit to /repo's working tree, runs the quick check of the property it was written for,
# undoes it, and writes tools/selftest_results.md. A row "MISSED" is a hole in the checks.
cd /verif
out=tools/selftest_results.md; [ -n "$*" ] && out=tools/selftest_partial.md
rows=()
run() { # label target props
  local label="$1" target="$2"; shift 2
  for id in "$@"; do
    res=$(MUT_SHOW=40 tools/mutant.sh "$target" $id 2>&1)
    n=$(echo "$res" | grep -c '^VIOLATION')
    noin=$(echo "$res" | grep '^VIOLATION' | grep -c 'no-failing-input-found')
    first=$(echo "$res" | grep '^VIOLATION' | head -3 | sed 's/.*replays\///; s/\.json.*//' | tr '\n' ' ')
    verdict=DETECTED; [ "$n" = 0 ] && verdict=MISSED
    echo "| $label | $id | $verdict | $n | $((n-noin)) | $first |" | tee -a $out.tmp
  done
}
: > $out.tmp
sel="$*"
want() { [ -z "$sel" ] || [[ " $sel " == *" $1 "* ]]; }
for d in seeded/C*-[ABCDEF]; do
  m=$(basename $d); p=${m%-*}
  want $m || continue
  grep -q "\"$p\"" spec/properties.json || { echo "| $m | $p | NO-CHECK | 0 | 0 | |" | tee -a $out.tmp; continue; }
  run $m $d/patch.diff $p
done
for f in selftest/*.diff; do
  m=$(basename $f .diff); want $m || continue
  case $m in c17-*) p=C17;; F2-revert) p=C11;; *) p=$(echo $m | cut -d- -f1 | tr a-z A-Z);; esac
  run "$m (hand-made)" $f $p
done
while read c props label; do
  want $label || continue
  run "$label (revert $c)" revert:$c $props
done <<'EOT'
1cda1bd C12 F1
c055a87 C13 F3
82ce081 C07 F4
82ce081 C13 F4
58261c6 C08 F5
ad77828 C17 F6
aa85bae C05 F7
a32eeaf C11 F8
04482e7 C07 F9
04482e7 C13 F9
EOT
{ echo "# Must-fail corpus: result of tools/selftest.sh ($(date -u +%F))"; echo; echo "| change | property | verdict | violation lines | with replayed failing input | first failed obligations |"; echo "|---|---|---|---|---|---|"; cat $out.tmp; } > $out
rm -f $out.tmp
git -C /repo status --short | grep -v '^??' && echo "WARNING: /repo not clean"
