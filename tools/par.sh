#!/bin/bash
# par.sh mustfail|benign <workers> : the must-fail / must-pass corpora on private copies of /repo (one per worker, under
# /tmp, removed at the end), so that several changes are judged at once. Results: tools/selftest_results.md / tools/benign_results.txt
mode=$1; W=${2:-3}
cd /verif
export GOFLAGS=-mod=mod GOPROXY=off GOSUMDB=off GOTOOLCHAIN=local
jobs=/tmp/par-jobs.$$; : > $jobs
if [ "$mode" = mustfail ]; then
  for d in seeded/C*-[ABCDEFG]; do m=$(basename $d); echo "$m|$d/patch.diff|${m%-*}" >> $jobs; done
  for f in selftest/*.diff; do m=$(basename $f .diff); case $m in c17-*) p=C17;; F2-revert) p=C11;; *) p=$(echo $m | cut -d- -f1 | tr a-z A-Z);; esac; echo "$m (hand-made)|$f|$p" >> $jobs; done
  while read c p l; do git -C /repo show $c -- . ':!verif_contracts.go' ':!cmd/opgen/verif_contracts.go' > /tmp/par-rev-$c-$p.diff; echo "$l (revert $c)|REV:/tmp/par-rev-$c-$p.diff|$p" >> $jobs; done <<'EOT'
1cda1bd C12 F1
c055a87 C13 F3
82ce081 C07 F4
82ce081 C13 F4
58261c6 C08 F5
ad77828 C17 F6
aa85bae C05 F7
a32eeaf C11 F8
04482e7 C07 F9
04482e7 C13 F9
EOT
else
  for f in selftest/benign/*.diff selftest/benign3/*.diff selftest/benign2/*/patch.diff selftest/benign4/*/patch.diff selftest/benign5/*/patch.diff; do echo "$(basename $(dirname $f))/$(basename $f)|$f|ALL" >> $jobs; done
fi
worker() { k=$1; repo=/tmp/par-repo-$k; rm -rf $repo; rsync -a --exclude .git /repo/ $repo/; (cd $repo && git init -q && git add -A >/dev/null 2>&1 && git -c user.name=x -c user.email=x@x commit -qm base >/dev/null 2>&1)
  n=0
  while IFS='|' read label patch props; do
    n=$((n+1)); if [ "$mode" = mustfail ]; then pi=$(echo $props | tr -dc 0-9); [ $((10#$pi % W)) -eq $k ] || continue; else [ $((n % W)) -eq $k ] || continue; fi
    rev=""; pf=$patch; case $patch in REV:*) rev=-R; pf=${patch#REV:};; esac
    pf=$(realpath $pf)
    (cd $repo && git apply $rev $pf) || { echo "| $label | $props | CANNOT-APPLY | 0 | 0 | |"; continue; }
    if [ "$mode" = mustfail ]; then
      res=$(VERIF_OUT_TAG=-w$k ./check $props --no-evidence --repo $repo 2>&1)
      v=$(echo "$res" | grep -c '^VIOLATION'); noin=$(echo "$res" | grep '^VIOLATION' | grep -c 'no-failing-input-found')
      first=$(echo "$res" | grep '^VIOLATION' | head -3 | sed 's/.*replays\///; s/\.json.*//' | tr '\n' ' ')
      verdict=DETECTED; [ "$v" = 0 ] && verdict=MISSED; echo "$res" | grep -q ENGINE-ERROR && verdict="ENGINE-ERROR"
      echo "| $label | $props | $verdict | $v | $((v-noin)) | $first |"
    else
      alarms=""
      for id in $(python3 -c "import json;print(' '.join(c['property_id'] for c in json.load(open('MANIFEST.json'))['checks']))"); do
        out=$(VERIF_OUT_TAG=-w$k ./check $id --no-evidence --repo $repo 2>&1); rc=$?
        [ $rc -ne 0 ] && alarms="$alarms $id:$(echo "$out" | grep -m2 '^VIOLATION\|ENGINE' | sed 's/.*replays\///; s/\.json.*//' | tr '\n' ',')"
      done
      if [ -z "$alarms" ]; then echo "PASS $label"; else echo "ALARM $label:$alarms"; fi
    fi
    (cd $repo && git checkout -q -- . && git clean -fdq)
  done < $jobs
  rm -rf $repo
}
for k in $(seq 0 $((W-1))); do worker $k > /tmp/par-out-$k.$$ & done; wait
if [ "$mode" = mustfail ]; then
  { echo "# Must-fail corpus: result of tools/par.sh mustfail ($(date -u +%F))"; echo; echo "| change | property | verdict | violation lines | with replayed failing input | first failed obligations |"; echo "|---|---|---|---|---|---|"; cat /tmp/par-out-*.$$ | sort; } > tools/selftest_results.md
else
  cat /tmp/par-out-*.$$ | sort > tools/benign_results.txt
fi
rm -f /tmp/par-out-*.$$ /tmp/par-rev-*.diff $jobs; rm -rf /verif/out/*-w[0-9]*
