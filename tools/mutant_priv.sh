#!/bin/bash
# mutant_priv.sh <tag> <patch> <props...>: the quick checks on a private copy of /repo (git archive HEAD) with the patch applied; /repo itself is not touched
export GOFLAGS=-mod=mod GOPROXY=off GOSUMDB=off GOTOOLCHAIN=local
tag=$1; pf=$(realpath $2); shift 2
repo=/tmp/mp-repo-$tag; rm -rf $repo; mkdir -p $repo; (cd /repo && git archive HEAD) | tar -x -C $repo; (cd $repo && git init -q && git add -A >/dev/null 2>&1 && git -c user.name=x -c user.email=x@x commit -qm base >/dev/null 2>&1)
(cd $repo && git apply $pf) || { echo "$tag CANNOT-APPLY"; rm -rf $repo; exit; }
cd /verif
for id in "$@"; do
  out=$(VERIF_OUT_TAG=-m$tag ./check $id --no-evidence --repo $repo 2>&1); rc=$?
  echo "$tag $id exit=$rc $(echo "$out" | tail -1)"; echo "$out" | grep '^VIOLATION\|STALE\|ENGINE' | head -4 | sed "s/^/   /"
done
rm -rf $repo /verif/out/*-m$tag
