; Character sets and character recipes (C02, C03, C13).
; A "character" is a piece of a string (one element of strings.Split(s, "")).

(declare-fun incs (Str Str) Bool)   ; incs(s, c): c is one of the pieces of s
(declare-fun incsw (Str Str) Int)   ; a position where it occurs
;;@ axiom INCS-witness trigger=incs :: definition of incs (a member occurs at some position)
(assert (forall ((s Str) (c Str)) (! (=> (incs s c) (and (<= 0 (incsw s c)) (< (incsw s c) (clen s)) (= (select (pieces s) (incsw s c)) c))) :pattern ((incs s c)))))
;;@ axiom INCS-member trigger=incs,pieces :: definition of incs (every piece is a member)
(assert (forall ((s Str) (i Int) (c Str)) (! (=> (and (<= 0 i) (< i (clen s))) (incs s (select (pieces s) i))) :pattern ((select (pieces s) i) (incs s c)))))
;;@ axiom INCS-eps trigger=incs,eps :: the empty string has no pieces
(assert (forall ((c Str)) (! (not (incs eps c)) :pattern ((incs eps c)))))
;;@ axiom INCS-cat trigger=incs,cat :: T-STR (valid UTF-8): the pieces of a concatenation are the pieces of its parts
(assert (forall ((a Str) (b Str) (c Str)) (! (=> (and (utf8ok a) (utf8ok b)) (= (incs (cat a b) c) (or (incs a c) (incs b c)))) :pattern ((incs (cat a b) c)))))
;;@ axiom UTF8-pieces trigger=utf8ok,pieces :: T-STR: the pieces of a valid UTF-8 string are valid
(assert (forall ((s Str) (i Int)) (! (=> (and (utf8ok s) (<= 0 i) (< i (clen s))) (utf8ok (select (pieces s) i))) :pattern ((select (pieces s) i) (utf8ok s)))))
;;@ axiom STR-single trigger=pieces,clen :: T-STR: a one-character string is its own only piece
(assert (forall ((c Str)) (! (=> (= (clen c) 1) (= (select (pieces c) 0) c)) :pattern ((select (pieces c) 0)))))
;;@ axiom UTF8-cat-at trigger=utf8ok,cat,pieces :: T-STR (valid UTF-8): piece i of a concatenation is piece i of the left part or piece i-clen(left) of the right part
(assert (forall ((a Str) (b Str) (i Int)) (! (=> (and (utf8ok a) (utf8ok b) (<= 0 i) (< i (+ (clen a) (clen b))))
   (= (select (pieces (cat a b)) i) (ite (< i (clen a)) (select (pieces a) i) (select (pieces b) (- i (clen a)))))) :pattern ((select (pieces (cat a b)) i)))))
(declare-fun cAnyw (Str Str) Str)
;;@ axiom CONTAINSANY-witness trigger=containsAny :: strings.ContainsAny(s, t): some piece of s is a piece of t
(assert (forall ((s Str) (t Str)) (! (=> (containsAny s t) (and (incs s (cAnyw s t)) (incs t (cAnyw s t)))) :pattern ((containsAny s t)))))
;;@ axiom CONTAINSANY-member trigger=containsAny,incs :: strings.ContainsAny(s, t) holds when they share a piece
(assert (forall ((s Str) (t Str) (c Str)) (! (=> (and (incs s c) (incs t c)) (containsAny s t)) :pattern ((containsAny s t) (incs s c) (incs t c)))))

; the five character classes as named constants; the VC generator identifies the string
; literals of the source with them by value (what the values are is property C16)
(declare-fun cls_upper () Str)
(declare-fun cls_lower () Str)
(declare-fun cls_digits () Str)
(declare-fun cls_symbols () Str)
(declare-fun cls_ambiguous () Str)
;;@ axiom CLS-utf8 trigger=cls_upper :: the class strings are valid UTF-8 (they are ASCII literals)
(assert (and (utf8ok cls_upper) (utf8ok cls_lower) (utf8ok cls_digits) (utf8ok cls_symbols) (utf8ok cls_ambiguous)))
(define-fun bitset ((x Int) (b Int)) Bool (= (mod (div x b) 2) 1))
; classIn(flags, c): c belongs to one of the classes whose flag bit is set (other bits are ignored)
(define-fun classIn ((flags Int) (c Str)) Bool
  (or (and (bitset flags 1) (incs cls_upper c)) (and (bitset flags 2) (incs cls_lower c)) (and (bitset flags 4) (incs cls_digits c))
      (and (bitset flags 8) (incs cls_symbols c)) (and (bitset flags 16) (incs cls_ambiguous c))))
; excluded(r, c): exclusion by class flag or by custom string
(define-fun excluded ((r CharRecipe) (c Str)) Bool (or (incs (CharRecipe_ExcludeChars r) c) (classIn (CharRecipe_Exclude r) c)))
; reqCustom(RS, off, n, c): c occurs in one of the non-empty custom required strings
(define-fun reqCustom ((RS (Array Int Str)) (off Int) (n Int) (c Str)) Bool
  (exists ((k Int)) (and (<= 0 k) (< k n) (not (= (select RS (idx off k)) eps)) (incs (select RS (idx off k)) c))))
; inA(r, RS, off, n, c): c is in the recipe's alphabet - allowed or required, and not excluded (statement of C03).
; Opaque in most verification conditions; revealed with "uses INA-def".
(declare-fun inA (CharRecipe (Array Int Str) Int Int Str) Bool)
;;@ axiom INA-def optin trigger=inA :: DEFINITION of the spec predicate inA (alphabet membership, from the statement of C03)
(assert (forall ((r CharRecipe) (RS (Array Int Str)) (off Int) (n Int) (c Str)) (! (= (inA r RS off n c)
  (and (or (incs (CharRecipe_AllowChars r) c) (classIn (CharRecipe_Allow r) c) (reqCustom RS off n c) (classIn (CharRecipe_Require r) c))
       (not (excluded r c)))) :pattern ((inA r RS off n c)))))
;;@ axiom INA-elim trigger=inA :: consequence of INA-def: a member of the alphabet is not excluded
(assert (forall ((r CharRecipe) (RS (Array Int Str)) (off Int) (n Int) (c Str)) (! (=> (inA r RS off n c) (not (excluded r c))) :pattern ((inA r RS off n c)))))
; hits(r, src, pw): the required source set src, if it still has a non-excluded member, is hit by pw.
; Opaque (so that equal arguments are identified by congruence); revealed with "uses HITS-def".
(declare-fun hits (CharRecipe Str Str) Bool)
(declare-fun hitsw (CharRecipe Str Str) Str)   ; a non-excluded member of src that occurs in pw, when there is one
;;@ axiom HITS-def optin trigger=hits :: DEFINITION of hits: if src has a non-excluded member then pw contains a non-excluded member of src (hitsw names one)
(assert (forall ((r CharRecipe) (src Str) (pw Str)) (! (= (hits r src pw)
  (or (forall ((c Str)) (! (=> (incs src c) (excluded r c)) :pattern ((incs src c))))
      (and (incs src (hitsw r src pw)) (not (excluded r (hitsw r src pw))) (incs pw (hitsw r src pw))))) :pattern ((hits r src pw)))))
;;@ axiom HITS-intro optin trigger=hits,incs :: consequence of the definition: any non-excluded member of src occurring in pw witnesses hits
(assert (forall ((r CharRecipe) (src Str) (pw Str) (c Str)) (! (=> (and (incs src c) (not (excluded r c)) (incs pw c)) (hits r src pw)) :pattern ((hits r src pw) (incs src c) (incs pw c)))))
; meets(r, RS, off, n, pw): pw contains a character from every required set that still has a non-excluded member.
; Opaque; revealed with "uses MEETS-def".
(declare-fun meets (CharRecipe (Array Int Str) Int Int Str) Bool)
;;@ axiom MEETS-def optin trigger=meets :: DEFINITION of the spec predicate meets (requirements of a character recipe, from the statement of C03)
(assert (forall ((r CharRecipe) (RS (Array Int Str)) (off Int) (n Int) (pw Str)) (! (= (meets r RS off n pw)
  (and (forall ((k Int)) (! (=> (and (<= 0 k) (< k n) (not (= (select RS (idx off k)) eps))) (hits r (select RS (idx off k)) pw)) :pattern ((select RS (idx off k)))))
       (=> (bitset (CharRecipe_Require r) 1) (hits r cls_upper pw)) (=> (bitset (CharRecipe_Require r) 2) (hits r cls_lower pw))
       (=> (bitset (CharRecipe_Require r) 4) (hits r cls_digits pw)) (=> (bitset (CharRecipe_Require r) 8) (hits r cls_symbols pw))
       (=> (bitset (CharRecipe_Require r) 16) (hits r cls_ambiguous pw)))) :pattern ((meets r RS off n pw)))))
; a set of one-character valid strings
(define-fun charset ((S (Array Str Bool))) Bool (forall ((c Str)) (! (=> (select S c) (and (= (clen c) 1) (utf8ok c))) :pattern ((select S c)))))
(define-fun nodupS ((s Str)) Bool (forall ((i Int) (j Int)) (! (=> (and (<= 0 i) (< i j) (< j (clen s))) (not (= (select (pieces s) i) (select (pieces s) j)))) :pattern ((select (pieces s) i) (select (pieces s) j)))))

; pub(r): the recipe with its derived (unexported, recomputed on every call) fields cleared
(define-fun pub ((r CharRecipe)) CharRecipe
  (mk_CharRecipe (CharRecipe_Length r) (CharRecipe_Allow r) (CharRecipe_Require r) (CharRecipe_Exclude r)
                 (CharRecipe_AllowChars r) (CharRecipe_RequireSets r) (CharRecipe_ExcludeChars r) 0 (mk_Slice 0 0 0 0)))
; noReq: no required source set has a non-excluded member (then nothing is required of a candidate)
(define-fun noReqSrc ((r CharRecipe) (src Str)) Bool (forall ((c Str)) (! (=> (incs src c) (excluded r c)) :pattern ((incs src c)))))
(declare-fun noReq (CharRecipe (Array Int Str) Int Int) Bool)
;;@ axiom NOREQ-def optin trigger=noReq :: DEFINITION of the spec predicate noReq (no required set has a non-excluded member)
(assert (forall ((r CharRecipe) (RS (Array Int Str)) (off Int) (n Int)) (! (= (noReq r RS off n)
  (and (forall ((k Int)) (=> (and (<= 0 k) (< k n)) (noReqSrc r (select RS (idx off k)))))
       (=> (bitset (CharRecipe_Require r) 1) (noReqSrc r cls_upper)) (=> (bitset (CharRecipe_Require r) 2) (noReqSrc r cls_lower))
       (=> (bitset (CharRecipe_Require r) 4) (noReqSrc r cls_digits)) (=> (bitset (CharRecipe_Require r) 8) (noReqSrc r cls_symbols))
       (=> (bitset (CharRecipe_Require r) 16) (noReqSrc r cls_ambiguous)))) :pattern ((noReq r RS off n)))))
; quantities decided by the bounded check of C07 (uninterpreted here): functions of the public fields only
(declare-fun alphaSize (CharRecipe (Array Int Str) Int Int) Int)      ; number of distinct characters in the alphabet
; enumOf(A,o,n, r,RS,ro,rn): A[o..o+n) lists the alphabet of the recipe exactly once each (one valid character per entry)
(declare-fun enumOf ((Array Int Str) Int Int CharRecipe (Array Int Str) Int Int) Bool)
;;@ axiom ENUMOF-def optin trigger=enumOf :: DEFINITION of enumOf: a duplicate-free list of single valid characters whose elements are exactly the members of the alphabet
(assert (forall ((A (Array Int Str)) (o Int) (n Int) (r CharRecipe) (RS (Array Int Str)) (ro Int) (rn Int)) (! (= (enumOf A o n r RS ro rn)
  (and (forall ((i Int) (j Int)) (! (=> (and (<= 0 i) (< i j) (< j n)) (not (= (select A (idx o i)) (select A (idx o j))))) :pattern ((select A (idx o i)) (select A (idx o j)))))
       (forall ((k Int)) (! (=> (and (<= 0 k) (< k n)) (and (inA r RS ro rn (select A (idx o k))) (= (clen (select A (idx o k))) 1) (utf8ok (select A (idx o k))))) :pattern ((select A (idx o k)))))
       (forall ((c Str)) (! (=> (inA r RS ro rn c) (exists ((k Int)) (and (<= 0 k) (< k n) (= (select A (idx o k)) c)))) :pattern ((inA r RS ro rn c))))))
  :pattern ((enumOf A o n r RS ro rn)))))
;;@ axiom ALPHASIZE-card trigger=enumOf,alphaSize :: T-CARD / DEFINITION of alphaSize: the length of any exact duplicate-free enumeration of the alphabet; there are at most 1114240 distinct one-character strings (1114112 code points + 128 single invalid bytes)
(assert (forall ((A (Array Int Str)) (o Int) (n Int) (r CharRecipe) (RS (Array Int Str)) (ro Int) (rn Int)) (! (=> (enumOf A o n r RS ro rn)
  (and (= (alphaSize r RS ro rn) n) (<= n 1114240))) :pattern ((enumOf A o n r RS ro rn)))))
(declare-fun entropyReq (CharRecipe (Array Int Str) Int Int) Real)    ; log2 of the number of strings meeting the requirements
(declare-fun successProb (CharRecipe (Array Int Str) Int Int) Real)   ; fraction of unconstrained candidates that meet them

; byte-wise string order (what sort.Strings uses): an uninterpreted strict total order
(declare-fun strlt (Str Str) Bool)
;;@ axiom STRLT-order trigger=strlt :: byte-wise order on strings is a strict total order
(assert (forall ((a Str) (b Str)) (! (and (not (and (strlt a b) (strlt b a))) (=> (not (= a b)) (or (strlt a b) (strlt b a))) (not (strlt a a))) :pattern ((strlt a b)))))
; sortedperm(A,B,off,n): B[off..off+n) is A[off..off+n) permuted into non-decreasing byte order, nothing else changed.
; permIdx(A,B,k) = where the element now at relative position k came from; permInv its inverse.
(declare-fun permIdx ((Array Int Str) (Array Int Str) Int) Int)
(declare-fun permInv ((Array Int Str) (Array Int Str) Int) Int)
;;@ axiom SORTEDPERM-def trigger=sortedperm :: extern sort.Strings: the range is permuted (a bijection of positions) into non-decreasing order; elements outside the range are unchanged
(assert (forall ((A (Array Int Str)) (B (Array Int Str)) (off Int) (n Int)) (! (=> (sortedperm A B off n)
  (and (forall ((k Int)) (! (=> (and (<= 0 k) (< k n)) (and (<= 0 (permIdx A B k)) (< (permIdx A B k) n) (= (permInv A B (permIdx A B k)) k)
                                    (= (select B (idx off k)) (select A (idx off (permIdx A B k)))))) :pattern ((select B (idx off k)))))
       (forall ((j Int)) (! (=> (and (<= 0 j) (< j n)) (and (<= 0 (permInv A B j)) (< (permInv A B j) n) (= (permIdx A B (permInv A B j)) j)
                                    (= (select A (idx off j)) (select B (idx off (permInv A B j)))))) :pattern ((select A (idx off j)))))
       (forall ((i Int) (j Int)) (! (=> (and (<= 0 i) (< i j) (< j n)) (not (strlt (select B (idx off j)) (select B (idx off i))))) :pattern ((select B (idx off i)) (select B (idx off j)))))
       (forall ((k Int)) (! (=> (or (< k off) (>= k (+ off n))) (= (select B k) (select A k))) :pattern ((select B k))))))
  :pattern ((sortedperm A B off n)))))

; x & b for the five class bits (the mask comes from a map key, so it is not a literal in the code)
;;@ axiom BAND-bit trigger=band32 :: A-BV (lemma BAND-bit): x & 2^k = 2^k * bit k of x, for the five class bits
(assert (forall ((x Int)) (! (=> (<= 0 x) (and (= (band32 x 1) (* 1 (mod (div x 1) 2))) (= (band32 x 2) (* 2 (mod (div x 2) 2))) (= (band32 x 4) (* 4 (mod (div x 4) 2)))
   (= (band32 x 8) (* 8 (mod (div x 8) 2))) (= (band32 x 16) (* 16 (mod (div x 16) 2))))) :pattern ((band32 x 1)) :pattern ((band32 x 2)) :pattern ((band32 x 4)) :pattern ((band32 x 8)) :pattern ((band32 x 16)))))
;;@ lemma BAND-bit props=C02,C03 :: bit-vector fact behind axiom BAND-bit: x & 2^k = 2^k * ((x >> k) & 1) on 32-bit values
(set-logic QF_BV)
(declare-const x (_ BitVec 32))
(declare-const k (_ BitVec 32))
(assert (bvult k #x00000005))
(assert (not (= (bvand x (bvshl #x00000001 k)) (bvmul (bvshl #x00000001 k) (bvurem (bvudiv x (bvshl #x00000001 k)) #x00000002)))))
(check-sat)
;;@ end

; ---- SuccessProbability under contract (C13): successProb gets its definition, the body is proved against it ----
; utf8seg(A,p,q): every element of A[p..q) is valid UTF-8 (witness form, so that a solver can establish it from a quantified precondition)
(declare-fun utf8seg ((Array Int Str) Int Int) Bool)
(declare-fun utf8segw ((Array Int Str) Int Int) Int)
;;@ axiom UTF8SEG-intro optin trigger=utf8seg :: definition of utf8seg (introduction through a witness: if the witness element is valid, all are)
(assert (forall ((A (Array Int Str)) (p Int) (q Int)) (! (=> (=> (and (<= 0 (utf8segw A p q)) (< (utf8segw A p q) (- q p))) (utf8ok (select A (idx p (utf8segw A p q))))) (utf8seg A p q)) :pattern ((utf8seg A p q)))))
(declare-fun joinw ((Array Int Str) Int Int Str) Int)
;;@ axiom INCS-joinseg-elim optin trigger=joinseg,incs :: T-STR (valid UTF-8): a piece of a concatenation of valid strings is a piece of one of them (joinw names which)
(assert (forall ((A (Array Int Str)) (p Int) (q Int) (c Str)) (! (=> (and (utf8seg A p q) (incs (joinseg A p q) c))
  (and (<= 0 (joinw A p q c)) (< (joinw A p q c) (- q p)) (incs (select A (idx p (joinw A p q c))) c))) :pattern ((incs (joinseg A p q) c)))))
;;@ axiom INCS-joinseg-intro optin trigger=joinseg,incs :: T-STR (valid UTF-8): a piece of an element is a piece of the concatenation of valid strings
(assert (forall ((A (Array Int Str)) (p Int) (q Int) (k Int) (c Str)) (! (=> (and (utf8seg A p q) (<= 0 k) (< k (- q p)) (incs (select A (idx p k)) c))
  (incs (joinseg A p q) c)) :pattern ((joinseg A p q) (incs (select A (idx p k)) c)))))
;;@ axiom UTF8-joinseg optin trigger=joinseg,utf8ok :: T-STR: a concatenation of valid UTF-8 strings is valid UTF-8
(assert (forall ((A (Array Int Str)) (p Int) (q Int)) (! (=> (utf8seg A p q) (utf8ok (joinseg A p q))) :pattern ((joinseg A p q)))))
;;@ axiom UTF8-cat optin trigger=cat,utf8ok :: T-STR: a concatenation of two valid UTF-8 strings is valid UTF-8
(assert (forall ((a Str) (b Str)) (! (=> (and (utf8ok a) (utf8ok b)) (utf8ok (cat a b))) :pattern ((cat a b)))))
; alphaSize is a function of the membership predicate inA alone (it is the cardinality of that set): extensionality, through a witness
(declare-fun alphaDiffW (CharRecipe (Array Int Str) Int Int CharRecipe (Array Int Str) Int Int) Str)
;;@ axiom ALPHASIZE-ext optin trigger=alphaSize :: T-CARD / DEFINITION of alphaSize: two recipes with the same alphabet membership have the same alphabet size
(assert (forall ((r1 CharRecipe) (RS1 (Array Int Str)) (o1 Int) (n1 Int) (r2 CharRecipe) (RS2 (Array Int Str)) (o2 Int) (n2 Int))
  (! (=> (= (inA r1 RS1 o1 n1 (alphaDiffW r1 RS1 o1 n1 r2 RS2 o2 n2)) (inA r2 RS2 o2 n2 (alphaDiffW r1 RS1 o1 n1 r2 RS2 o2 n2)))
         (= (alphaSize r1 RS1 o1 n1) (alphaSize r2 RS2 o2 n2))) :pattern ((alphaSize r1 RS1 o1 n1) (alphaSize r2 RS2 o2 n2)))))
;;@ axiom BOR-bits optin trigger=bor32 :: A-BV (lemma BOR-bits): each of the five class bits of x | y is set iff it is set in x or in y
(assert (forall ((x Int) (y Int)) (! (=> (and (<= 0 x) (<= x 4294967295) (<= 0 y) (<= y 4294967295))
  (and (<= 0 (bor32 x y)) (<= (bor32 x y) 4294967295)
       (= (bitset (bor32 x y) 1) (or (bitset x 1) (bitset y 1))) (= (bitset (bor32 x y) 2) (or (bitset x 2) (bitset y 2)))
       (= (bitset (bor32 x y) 4) (or (bitset x 4) (bitset y 4))) (= (bitset (bor32 x y) 8) (or (bitset x 8) (bitset y 8)))
       (= (bitset (bor32 x y) 16) (or (bitset x 16) (bitset y 16))))) :pattern ((bor32 x y)))))
;;@ lemma BOR-bits props=C13,C17 :: bit-vector fact behind axiom BOR-bits: bit k of x | y is bit k of x or bit k of y, on 32-bit values, k < 5
(set-logic QF_BV)
(declare-const x (_ BitVec 32))
(declare-const y (_ BitVec 32))
(declare-const k (_ BitVec 32))
(assert (bvult k #x00000005))
(assert (not (= (= (bvurem (bvudiv (bvor x y) (bvshl #x00000001 k)) #x00000002) #x00000001)
                (or (= (bvurem (bvudiv x (bvshl #x00000001 k)) #x00000002) #x00000001) (= (bvurem (bvudiv y (bvshl #x00000001 k)) #x00000002) #x00000001)))))
(check-sat)
;;@ end
;;@ axiom EXP2-mono optin trigger=exp2 :: A-REAL: 2^x is non-decreasing and 2^0 = 1
(assert (and (= (exp2 0.0) 1.0) (forall ((a Real) (b Real)) (! (=> (<= a b) (<= (exp2 a) (exp2 b))) :pattern ((exp2 a) (exp2 b))))))
;;@ axiom ENTROPYREQ-le optin trigger=entropyReq,alphaSize :: T-CARD: the strings that meet the requirements are among the alphaSize^Length candidates, and log2 is non-decreasing
(assert (forall ((r CharRecipe) (RS (Array Int Str)) (off Int) (n Int)) (! (<= (entropyReq r RS off n)
  (* (to_real (CharRecipe_Length r)) (log2 (to_real (alphaSize r RS off n))))) :pattern ((entropyReq r RS off n)))))
;;@ axiom SUCCESSPROB-def optin trigger=successProb :: DEFINITION of successProb (statement of C13): the fraction count/alphaSize^Length of candidates that meet the requirements, written 2^(log2 count - Length*log2 alphaSize); every candidate meets them when nothing is required
(assert (forall ((r CharRecipe) (RS (Array Int Str)) (off Int) (n Int)) (! (= (successProb r RS off n)
  (exp2 (- (ite (noReq r RS off n) (* (to_real (CharRecipe_Length r)) (log2 (to_real (alphaSize r RS off n)))) (entropyReq r RS off n))
           (* (to_real (CharRecipe_Length r)) (log2 (to_real (alphaSize r RS off n))))))) :pattern ((successProb r RS off n)))))

; ---- entropyWithRequired under contract (C07): entropyReq gets its definition; the trusted contract moves to the count n() ----
(declare-fun countReq (CharRecipe (Array Int Str) Int Int) Int)   ; the exact number of strings of the recipe's length over its alphabet that meet the requirements
;;@ axiom ENTROPYREQ-def optin trigger=entropyReq :: DEFINITION of entropyReq (statement of C07): log2 of the exact count countReq, which is a count (non-negative)
(assert (forall ((r CharRecipe) (RS (Array Int Str)) (off Int) (n Int)) (! (and (>= (countReq r RS off n) 0) (= (entropyReq r RS off n) (log2 (to_real (countReq r RS off n))))) :pattern ((entropyReq r RS off n)))))
