; T-STR: strings as sequences of "pieces" (what strings.Split(s, "") yields: one element per
; UTF-8 sequence, one per stray byte), and the token-index spec functions (C11, C12).

; seg(s,p,q) = strings.Join(strings.Split(s,"")[p:q], "")
(define-fun seg ((s Str) (p Int) (q Int)) Str (joinseg (pieces s) p q))
(define-fun at ((s Str) (i Int)) Str (select (pieces s) i))

;;@ axiom STR-joinseg-empty trigger=joinseg :: T-STR: joining an empty range of pieces gives the empty string
(assert (forall ((A (Array Int Str)) (p Int) (q Int)) (! (=> (<= q p) (= (joinseg A p q) eps)) :pattern ((joinseg A p q)))))
;;@ axiom STR-joinseg-one trigger=joinseg :: T-STR: joining a one-element range gives that element
(assert (forall ((A (Array Int Str)) (p Int) (q Int)) (! (=> (= q (+ p 1)) (= (joinseg A p q) (select A p))) :pattern ((joinseg A p q)))))
;;@ axiom STR-joinseg-split optin trigger=joinseg,cat :: T-STR: consecutive ranges concatenate: join(A,p,q)+join(A,q,r) = join(A,p,r)
(assert (forall ((A (Array Int Str)) (p Int) (q Int) (r Int)) (! (=> (and (<= p q) (<= q r)) (= (cat (joinseg A p q) (joinseg A q r)) (joinseg A p r))) :pattern ((joinseg A p q) (joinseg A q r)))))
;;@ axiom STR-piece-is-char trigger=pieces,clen :: T-STR: every piece of a string is a one-character string
(assert (forall ((s Str) (i Int)) (! (=> (and (<= 0 i) (< i (clen s))) (= (clen (select (pieces s) i)) 1)) :pattern ((select (pieces s) i)))))
;;@ axiom STR-cat-eps trigger=cat,eps :: T-STR: the empty string is the unit of concatenation
(assert (forall ((s Str)) (! (and (= (cat eps s) s) (= (cat s eps) s)) :pattern ((cat eps s)) :pattern ((cat s eps)))))
;;@ axiom STR-cat-blen trigger=cat,blen :: T-STR: byte length is additive
(assert (forall ((a Str) (b Str)) (! (= (blen (cat a b)) (+ (blen a) (blen b))) :pattern ((cat a b)))))

; prefix sums over the elements of a byte slice (array A, offset off):
;   psum(A, off, start, stride, j) = sum_{k<j} A[idx(off, start + stride*k)]
(declare-fun psum ((Array Int Int) Int Int Int Int) Int)
;;@ axiom PSUM-zero trigger=psum :: definition of the prefix sum (base case)
(assert (forall ((A (Array Int Int)) (o Int) (b Int) (s Int)) (! (= (psum A o b s 0) 0) :pattern ((psum A o b s 0)))))
;;@ axiom PSUM-step trigger=psum :: definition of the prefix sum (step); relates two existing terms, never creates new prefix sums
(assert (forall ((A (Array Int Int)) (o Int) (b Int) (s Int) (j Int)) (! (=> (>= j 0) (= (psum A o b s (+ j 1)) (+ (psum A o b s j) (select A (idx o (+ b (* s j))))))) :pattern ((psum A o b s (+ j 1)) (psum A o b s j)))))

; ---------- valid UTF-8 (used by the round trip of C11, never by C12) ----------
(declare-fun utf8ok (Str) Bool)
;;@ axiom UTF8-eps trigger=utf8ok,eps :: T-STR: the empty string is valid UTF-8
(assert (utf8ok eps))
;;@ axiom UTF8-cat trigger=utf8ok,cat :: T-STR (valid UTF-8): a concatenation of valid strings is valid and its character count is the sum
(assert (forall ((a Str) (b Str)) (! (=> (and (utf8ok a) (utf8ok b)) (and (utf8ok (cat a b)) (= (clen (cat a b)) (+ (clen a) (clen b))))) :pattern ((cat a b)))))
;;@ axiom UTF8-seg-left trigger=utf8ok,cat,joinseg :: T-STR (valid UTF-8): a segment of a concatenation that lies within the left operand is that segment of the left operand
(assert (forall ((a Str) (b Str) (p Int) (q Int)) (! (=> (and (utf8ok a) (utf8ok b) (<= 0 p) (<= p q) (<= q (clen a))) (= (joinseg (pieces (cat a b)) p q) (joinseg (pieces a) p q))) :pattern ((joinseg (pieces (cat a b)) p q)))))
;;@ axiom UTF8-seg-right trigger=utf8ok,cat,joinseg :: T-STR (valid UTF-8): the segment of a concatenation from the end of the left operand to the end is the right operand
(assert (forall ((a Str) (b Str)) (! (=> (and (utf8ok a) (utf8ok b)) (= (joinseg (pieces (cat a b)) (clen a) (+ (clen a) (clen b))) b)) :pattern ((cat a b)))))
;;@ axiom PSUM-mono optin trigger=psum :: PROVED (lemma L-psum-mono, induction): prefix sums of non-negative entries are non-decreasing, and a later prefix sum includes the next summand
(assert (forall ((A (Array Int Int)) (o Int) (b Int) (s Int) (i Int) (j Int))
  (! (=> (and (<= 0 i) (<= i j) (forall ((x Int)) (>= (select A x) 0)))
         (and (<= (psum A o b s i) (psum A o b s j))
              (=> (< i j) (<= (+ (psum A o b s i) (select A (idx o (+ b (* s i))))) (psum A o b s j)))))
     :pattern ((psum A o b s i) (psum A o b s j)))))
