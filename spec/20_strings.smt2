; T-STR: strings as sequences of "pieces" (what strings.Split(s, "") yields: one element per
; UTF-8 sequence, one per stray byte), and the token-index spec functions (C11, C12).

; seg(s,p,q) = strings.Join(strings.Split(s,"")[p:q], "")
(define-fun seg ((s Str) (p Int) (q Int)) Str (joinseg (pieces s) p q))
(define-fun at ((s Str) (i Int)) Str (select (pieces s) i))

;;@ axiom STR-joinseg-empty trigger=joinseg :: T-STR: joining an empty range of pieces gives the empty string
(assert (forall ((A (Array Int Str)) (p Int) (q Int)) (! (=> (<= q p) (= (joinseg A p q) eps)) :pattern ((joinseg A p q)))))
;;@ axiom STR-joinseg-one trigger=joinseg :: T-STR: joining a one-element range gives that element
(assert (forall ((A (Array Int Str)) (p Int)) (! (= (joinseg A p (+ p 1)) (select A p)) :pattern ((joinseg A p (+ p 1))))))
;;@ axiom STR-joinseg-split trigger=joinseg,cat :: T-STR: consecutive ranges concatenate: join(A,p,q)+join(A,q,r) = join(A,p,r)
(assert (forall ((A (Array Int Str)) (p Int) (q Int) (r Int)) (! (=> (and (<= p q) (<= q r)) (= (cat (joinseg A p q) (joinseg A q r)) (joinseg A p r))) :pattern ((joinseg A p q) (joinseg A q r)))))
;;@ axiom STR-piece-is-char trigger=pieces,clen :: T-STR: every piece of a string is a one-character string
(assert (forall ((s Str) (i Int)) (! (=> (and (<= 0 i) (< i (clen s))) (= (clen (select (pieces s) i)) 1)) :pattern ((select (pieces s) i)))))
;;@ axiom STR-cat-eps trigger=cat,eps :: T-STR: the empty string is the unit of concatenation
(assert (forall ((s Str)) (! (and (= (cat eps s) s) (= (cat s eps) s)) :pattern ((cat eps s)) :pattern ((cat s eps)))))
;;@ axiom STR-cat-blen trigger=cat,blen :: T-STR: byte length is additive
(assert (forall ((a Str) (b Str)) (! (= (blen (cat a b)) (+ (blen a) (blen b))) :pattern ((cat a b)))))

; prefix sums over a byte array: psum(A, base, stride, j) = sum_{k<j} A[base + stride*k]
(declare-fun psum ((Array Int Int) Int Int Int) Int)
;;@ axiom PSUM-zero trigger=psum :: definition of the prefix sum (base case)
(assert (forall ((A (Array Int Int)) (b Int) (s Int)) (! (= (psum A b s 0) 0) :pattern ((psum A b s 0)))))
;;@ axiom PSUM-step trigger=psum :: definition of the prefix sum (step)
(assert (forall ((A (Array Int Int)) (b Int) (s Int) (j Int)) (! (=> (> j 0) (= (psum A b s j) (+ (psum A b s (- j 1)) (select A (+ b (* s (- j 1))))))) :pattern ((psum A b s j)))))
