; ---------------------------------------------------------------------------
; C17: the opgen command. Process-level ghost state and the spec functions of
; the flag-word tables.
; ---------------------------------------------------------------------------
; exitcode: -1 while the process runs, otherwise the status it exited with
;;@ ghost exitcode Int
; outn / outl: number of writes to standard output so far and their texts
;;@ ghost outn Int
;;@ ghost outl (Array Int Str)
; flaghelp: the flag package itself ended the process for a help request (-h)
;;@ ghost flaghelp Bool
; registry of flag variables: FSET[p] = the flag set a value pointer was registered with (0: none), FNAME[p] = its flag name
;;@ ghost FSET (Array Int Int)
;;@ ghost FNAME (Array Int Str)

; class word -> class flag (defined by the package-level spec clause CC in cmd/opgen/verif_contracts.go)
(declare-fun ccOf (Str) Int)
; capitalisation word -> scheme
(declare-fun capOf (Str) Str)
; strings.Replace(s, " ", "", -1)
(declare-fun stripsp (Str) Str)
; strings.Split(s, ","): csplitN(s) >= 1 pieces csplitA(s)[0..)
(declare-fun csplitA (Str) (Array Int Str))
(declare-fun csplitN (Str) Int)
;;@ axiom CSPLIT-n trigger=csplitN :: T-STR: strings.Split(s, ",") yields at least one piece
(assert (forall ((s Str)) (! (>= (csplitN s) 1) :pattern ((csplitN s)))))
; strings.Fields(s)
(declare-fun fieldsA (Str) (Array Int Str))
(declare-fun fieldsN (Str) Int)
;;@ axiom FIELDS-n trigger=fieldsN :: T-STR: strings.Fields(s) yields zero or more words
(assert (forall ((s Str)) (! (>= (fieldsN s) 0) :pattern ((fieldsN s)))))
; contents of the file at a path (as text), and whether reading it fails
(declare-fun filetext (Str) Str)
(declare-fun fileerr (Str) Bool)
; fmt.Sprintf("%.2f", x)
(declare-fun fmtF2 (Real) Str)
; a line of the usage text (defined as: what printUsage writes)
(declare-fun isUsageLine (Str) Bool)

; orfold(A, off, j) = ccOf(A[off]) | ... | ccOf(A[off+j-1])
(declare-fun orfold ((Array Int Str) Int Int) Int)
;;@ axiom ORFOLD-empty trigger=orfold :: definition of orfold (no words)
(assert (forall ((A (Array Int Str)) (off Int) (j Int)) (! (=> (<= j 0) (= (orfold A off j) 0)) :pattern ((orfold A off j)))))
;;@ axiom ORFOLD-step trigger=orfold :: definition of orfold (one more word)
(assert (forall ((A (Array Int Str)) (off Int) (j Int) (j2 Int)) (! (=> (and (<= 0 j) (= j2 (+ j 1)))
   (= (orfold A off j2) (bor32 (orfold A off j) (ccOf (select A (idx off j))))))
   :pattern ((orfold A off j2) (orfold A off j)))))
; boxing of floating-point values into interface values; text written by fmt.Println / fmt.Printf
(declare-fun boxReal (Real) Int)
(declare-fun println1 (Int) Str)
(declare-fun printf1 (Str Int) Str)
(declare-fun printf0 (Str) Str)

;;@ axiom BOR-zero trigger=bor32 :: A-BV (lemma BOR-bit): x | 0 = x
(assert (forall ((x Int)) (! (= (bor32 x 0) x) :pattern ((bor32 x 0)))))
;;@ axiom BOR-bit1 trigger=bor32 :: A-BV (proved in QF_BV, lemma BOR-bit): on values below 32, x | 1 adds 1 unless that bit is already set
(assert (forall ((x Int)) (! (=> (and (<= 0 x) (< x 32)) (= (bor32 x 1) (ite (bitset x 1) x (+ x 1)))) :pattern ((bor32 x 1)))))
;;@ axiom BOR-bit2 trigger=bor32 :: A-BV (proved in QF_BV, lemma BOR-bit): on values below 32, x | 2 adds 2 unless that bit is already set
(assert (forall ((x Int)) (! (=> (and (<= 0 x) (< x 32)) (= (bor32 x 2) (ite (bitset x 2) x (+ x 2)))) :pattern ((bor32 x 2)))))
;;@ axiom BOR-bit4 trigger=bor32 :: A-BV (proved in QF_BV, lemma BOR-bit): on values below 32, x | 4 adds 4 unless that bit is already set
(assert (forall ((x Int)) (! (=> (and (<= 0 x) (< x 32)) (= (bor32 x 4) (ite (bitset x 4) x (+ x 4)))) :pattern ((bor32 x 4)))))
;;@ axiom BOR-bit8 trigger=bor32 :: A-BV (proved in QF_BV, lemma BOR-bit): on values below 32, x | 8 adds 8 unless that bit is already set
(assert (forall ((x Int)) (! (=> (and (<= 0 x) (< x 32)) (= (bor32 x 8) (ite (bitset x 8) x (+ x 8)))) :pattern ((bor32 x 8)))))
;;@ axiom BOR-bit16 trigger=bor32 :: A-BV (proved in QF_BV, lemma BOR-bit): on values below 32, x | 16 adds 16 unless that bit is already set
(assert (forall ((x Int)) (! (=> (and (<= 0 x) (< x 32)) (= (bor32 x 16) (ite (bitset x 16) x (+ x 16)))) :pattern ((bor32 x 16)))))

;;@ lemma BOR-bit props=C17 :: bit-vector fact behind the BOR-bit axioms: for a single class bit k, x|k = x if the bit is set in x, else x+k (no carry); x|0 = x
(set-logic QF_BV)
(declare-const x (_ BitVec 8))
(declare-const k (_ BitVec 8))
(assert (bvult x #x20))
(assert (or (= k #x01) (= k #x02) (= k #x04) (= k #x08) (= k #x10)))
(assert (not (and (= (bvor x #x00) x) (= (bvor x k) (ite (not (= (bvand x k) #x00)) x (bvadd x k))) (bvult (bvor x k) #x20)
   (= (not (= (bvand x k) #x00)) (= (bvurem (bvudiv x k) #x02) #x01)))))
(check-sat)
;;@ end
