; Token sequences: index kinds (C11), concatenation (C05, C11), and small-cardinality facts.

; index kinds, from the documentation of MakeIndices / the property statement.
; A token sequence is given as (A, off, n): the n tokens A[off+0] .. A[off+n-1] (relative indices,
; the same term shape the VC generator produces for ts[j]).
(define-fun allatoms ((A (Array Int Token)) (off Int) (n Int)) Bool
  (and (> n 0) (forall ((j Int)) (=> (and (<= 0 j) (< j n)) (= (Token_tType (select A (+ off j))) 1)))))
(define-fun allone ((A (Array Int Token)) (off Int) (n Int)) Bool
  (forall ((j Int)) (=> (and (<= 0 j) (< j n)) (= (clen (Token_value (select A (+ off j)))) 1))))
(define-fun alternating ((A (Array Int Token)) (off Int) (n Int)) Bool
  (and (= (mod n 2) 1) (>= n 3)
       (forall ((j Int)) (=> (and (<= 0 j) (< j n)) (= (Token_tType (select A (+ off j))) (ite (= (mod j 2) 0) 1 0))))))
(define-fun kindOf ((A (Array Int Token)) (off Int) (n Int)) Int
  (ite (and (allatoms A off n) (allone A off n)) 0 (ite (allatoms A off n) 1 (ite (alternating A off n) 2 3))))

; concatenation of token values: catTok(A, off, n) = value(A[off]) ++ ... ++ value(A[off+n-1])
(declare-fun catTok ((Array Int Token) Int Int) Str)
;;@ axiom CATTOK-empty trigger=catTok :: definition of catTok (no tokens)
(assert (forall ((A (Array Int Token)) (off Int) (n Int)) (! (=> (<= n 0) (= (catTok A off n) eps)) :pattern ((catTok A off n)))))
;;@ axiom CATTOK-step trigger=catTok :: definition of catTok (append the last token)
(assert (forall ((A (Array Int Token)) (off Int) (n Int)) (! (=> (> n 0) (= (catTok A off n) (cat (catTok A off (- n 1)) (Token_value (select A (+ off (- n 1))))))) :pattern ((catTok A off n)))))
