; Token sequences: index kinds (C11), concatenation (C05, C11), and small-cardinality facts.

; index kinds, from the documentation of MakeIndices / the property statement.
; A token sequence is given as (A, off, n): the n tokens A[off+0] .. A[off+n-1] (relative indices,
; the same term shape the VC generator produces for ts[j]).
(define-fun allatoms ((A (Array Int Token)) (off Int) (n Int)) Bool
  (and (> n 0) (forall ((j Int)) (=> (and (<= 0 j) (< j n)) (= (Token_tType (select A (idx off j))) 1)))))
(define-fun allone ((A (Array Int Token)) (off Int) (n Int)) Bool
  (forall ((j Int)) (=> (and (<= 0 j) (< j n)) (= (clen (Token_value (select A (idx off j)))) 1))))
(define-fun alternating ((A (Array Int Token)) (off Int) (n Int)) Bool
  (and (= (mod n 2) 1) (>= n 3)
       (forall ((j Int)) (=> (and (<= 0 j) (< j n)) (= (Token_tType (select A (idx off j))) (ite (= (mod j 2) 0) 1 0))))))
; kindOf is opaque in most verification conditions: callers only need that the index's kind byte
; and Kind() are the same value, plus the cheap consequences below. Its definition (from the
; documentation: character password / all atoms / strictly alternating / anything else) is revealed
; to the functions that compute it by listing KINDOF-def under "uses".
(declare-fun kindOf ((Array Int Token) Int Int) Int)
;;@ axiom KINDOF-def optin trigger=kindOf :: DEFINITION of the spec function kindOf (index kind of a token sequence, from the documentation of MakeIndices)
(assert (forall ((A (Array Int Token)) (off Int) (n Int)) (! (= (kindOf A off n)
  (ite (and (allatoms A off n) (allone A off n)) 0 (ite (allatoms A off n) 1 (ite (alternating A off n) 2 3)))) :pattern ((kindOf A off n)))))
;;@ axiom KINDOF-elim trigger=kindOf :: consequences of the definition of kindOf (each follows from KINDOF-def; lemma L-kindof-elim)
(assert (forall ((A (Array Int Token)) (off Int) (n Int)) (! (and (<= 0 (kindOf A off n)) (<= (kindOf A off n) 3)
   (=> (= (kindOf A off n) 0) (and (allatoms A off n) (allone A off n)))
   (=> (= (kindOf A off n) 1) (allatoms A off n))
   (=> (= (kindOf A off n) 2) (alternating A off n))) :pattern ((kindOf A off n)))))

; concatenation of token values: catTok(A, off, n) = value(A[off]) ++ ... ++ value(A[off+n-1])
(declare-fun catTok ((Array Int Token) Int Int) Str)
;;@ axiom CATTOK-empty trigger=catTok :: definition of catTok (no tokens)
(assert (forall ((A (Array Int Token)) (off Int) (n Int)) (! (=> (<= n 0) (= (catTok A off n) eps)) :pattern ((catTok A off n)))))
;;@ axiom CATTOK-step trigger=catTok :: definition of catTok (append the last token)
(assert (forall ((A (Array Int Token)) (off Int) (n Int)) (! (=> (>= n 0) (= (catTok A off (+ n 1)) (cat (catTok A off n) (Token_value (select A (idx off n)))))) :pattern ((catTok A off (+ n 1)) (catTok A off n)))))

; character-count prefix sums of a token sequence: csum(A, off, j) = sum_{k<j} clen(value(A[off+k]))
(declare-fun csum ((Array Int Token) Int Int) Int)
;;@ axiom CSUM-zero trigger=csum :: definition of csum (base)
(assert (forall ((A (Array Int Token)) (off Int)) (! (= (csum A off 0) 0) :pattern ((csum A off 0)))))
;;@ axiom CSUM-step trigger=csum :: definition of csum (step)
(assert (forall ((A (Array Int Token)) (off Int) (j Int)) (! (=> (>= j 0) (= (csum A off (+ j 1)) (+ (csum A off j) (clen (Token_value (select A (idx off j))))))) :pattern ((csum A off (+ j 1)) (csum A off j)))))
;;@ axiom CSUM-mono optin trigger=csum :: PROVED (lemma L-csum-mono, induction): csum is non-decreasing
(assert (forall ((A (Array Int Token)) (off Int) (i Int) (j Int)) (! (=> (and (<= 0 i) (<= i j)) (<= (csum A off i) (csum A off j))) :pattern ((csum A off i) (csum A off j)))))
(define-fun allutf8 ((A (Array Int Token)) (off Int) (n Int)) Bool
  (forall ((j Int)) (=> (and (<= 0 j) (< j n)) (utf8ok (Token_value (select A (idx off j)))))))
;;@ axiom CSUM-nonneg optin trigger=csum :: PROVED (consequence of CSUM-zero and CSUM-mono, lemma L-csum-nonneg): prefix sums of character counts are non-negative
(assert (forall ((A (Array Int Token)) (off Int) (j Int)) (! (=> (>= j 0) (>= (csum A off j) 0)) :pattern ((csum A off j)))))

; values of the tokens of one type, in order (C05: Atoms(), Separators()):
;   tcount(A,off,n,t) = number of tokens of type t among the first n
;   tfilt(A,off,n,t)  = array holding their values at positions 0 .. tcount-1
(declare-fun tcount ((Array Int Token) Int Int Int) Int)
(declare-fun tfilt ((Array Int Token) Int Int Int) (Array Int Str))
;;@ axiom TCOUNT-zero trigger=tcount :: definition of tcount (no tokens)
(assert (forall ((A (Array Int Token)) (off Int) (t Int)) (! (= (tcount A off 0 t) 0) :pattern ((tcount A off 0 t)))))
;;@ axiom TCOUNT-step trigger=tcount :: definition of tcount (step); relates existing terms only
(assert (forall ((A (Array Int Token)) (off Int) (n Int) (t Int)) (! (=> (>= n 0) (= (tcount A off (+ n 1) t) (+ (tcount A off n t) (ite (= (Token_tType (select A (idx off n))) t) 1 0)))) :pattern ((tcount A off (+ n 1) t) (tcount A off n t)))))
;;@ axiom TFILT-step trigger=tfilt :: definition of tfilt (step): a token of the type is stored at the next free position, others are skipped
(assert (forall ((A (Array Int Token)) (off Int) (n Int) (t Int)) (! (=> (>= n 0) (= (tfilt A off (+ n 1) t)
   (ite (= (Token_tType (select A (idx off n))) t) (store (tfilt A off n t) (tcount A off n t) (Token_value (select A (idx off n)))) (tfilt A off n t)))) :pattern ((tfilt A off (+ n 1) t) (tfilt A off n t)))))
