; Lemmas about the spec functions of the random source: property C01 stated on
; thr/acc/pick (written from the property text, not from util.go). Each block is a
; complete script whose expected answer is unsat. Integers are mathematical.

;;@ lemma L-range props=C01 :: every accepted raw word yields a result in [0,n)
(define-fun ispow2 ((n Int)) Bool
  (or (= n 1) (= n 2) (= n 4) (= n 8) (= n 16) (= n 32) (= n 64) (= n 128) (= n 256) (= n 512) (= n 1024) (= n 2048)
      (= n 4096) (= n 8192) (= n 16384) (= n 32768) (= n 65536) (= n 131072) (= n 262144) (= n 524288) (= n 1048576)
      (= n 2097152) (= n 4194304) (= n 8388608) (= n 16777216) (= n 33554432) (= n 67108864) (= n 134217728)
      (= n 268435456) (= n 536870912) (= n 1073741824) (= n 2147483648)))
(define-fun thr ((n Int)) Int (ite (ispow2 n) 4294967296 (- 4294967295 (mod 4294967295 n))))
(declare-const n Int)
(declare-const w Int)
(assert (and (<= 1 n) (< n 4294967296) (<= 0 w) (< w 4294967296)))
(assert (< w (thr n)))
(assert (not (and (<= 0 (mod w n)) (< (mod w n) n))))
(check-sat)
;;@ end

;;@ lemma L-thr-multiple props=C01 :: the acceptance threshold is an exact multiple of n: thr(n) = q(n)*n
(define-fun ispow2 ((n Int)) Bool
  (or (= n 1) (= n 2) (= n 4) (= n 8) (= n 16) (= n 32) (= n 64) (= n 128) (= n 256) (= n 512) (= n 1024) (= n 2048)
      (= n 4096) (= n 8192) (= n 16384) (= n 32768) (= n 65536) (= n 131072) (= n 262144) (= n 524288) (= n 1048576)
      (= n 2097152) (= n 4194304) (= n 8388608) (= n 16777216) (= n 33554432) (= n 67108864) (= n 134217728)
      (= n 268435456) (= n 536870912) (= n 1073741824) (= n 2147483648)))
(define-fun thr ((n Int)) Int (ite (ispow2 n) 4294967296 (- 4294967295 (mod 4294967295 n))))
(declare-const n Int)
(assert (and (<= 1 n) (< n 4294967296)))
(assert (not (and (= (mod (thr n) n) 0) (= (thr n) (* (div (thr n) n) n)) (<= (thr n) 4294967296))))
(check-sat)
;;@ end

;;@ lemma L-fibre-onto props=C01 :: for every block j < q(n) and alternative k < n the raw word j*n+k is a 32-bit value, is accepted, yields k, and lies in block j: each alternative has at least q(n) accepted raw words, one per block
(define-fun ispow2 ((n Int)) Bool
  (or (= n 1) (= n 2) (= n 4) (= n 8) (= n 16) (= n 32) (= n 64) (= n 128) (= n 256) (= n 512) (= n 1024) (= n 2048)
      (= n 4096) (= n 8192) (= n 16384) (= n 32768) (= n 65536) (= n 131072) (= n 262144) (= n 524288) (= n 1048576)
      (= n 2097152) (= n 4194304) (= n 8388608) (= n 16777216) (= n 33554432) (= n 67108864) (= n 134217728)
      (= n 268435456) (= n 536870912) (= n 1073741824) (= n 2147483648)))
(define-fun thr ((n Int)) Int (ite (ispow2 n) 4294967296 (- 4294967295 (mod 4294967295 n))))
(declare-const n Int)
(declare-const j Int)
(declare-const k Int)
(declare-const q Int)
(assert (and (<= 1 n) (< n 4294967296)))
(assert (= q (div (thr n) n)))
(assert (= (thr n) (* q n)))   ; L-thr-multiple
(assert (and (<= 0 j) (< j q) (<= 0 k) (< k n)))
(declare-const w Int)
(assert (= w (+ (* j n) k)))
(assert (not (and (<= 0 w) (< w 4294967296) (< w (thr n)) (= (mod w n) k) (= (div w n) j))))
(check-sat)
;;@ end

;;@ lemma L-fibre-into props=C01 :: every accepted raw word w is j*n+k for its own block j = w div n < q(n) and residue k = w mod n: the map w -> (w div n, w mod n) is a bijection from accepted words onto [0,q) x [0,n), so every alternative is selected by exactly q(n) raw words
(define-fun ispow2 ((n Int)) Bool
  (or (= n 1) (= n 2) (= n 4) (= n 8) (= n 16) (= n 32) (= n 64) (= n 128) (= n 256) (= n 512) (= n 1024) (= n 2048)
      (= n 4096) (= n 8192) (= n 16384) (= n 32768) (= n 65536) (= n 131072) (= n 262144) (= n 524288) (= n 1048576)
      (= n 2097152) (= n 4194304) (= n 8388608) (= n 16777216) (= n 33554432) (= n 67108864) (= n 134217728)
      (= n 268435456) (= n 536870912) (= n 1073741824) (= n 2147483648)))
(define-fun thr ((n Int)) Int (ite (ispow2 n) 4294967296 (- 4294967295 (mod 4294967295 n))))
(declare-const n Int)
(declare-const w Int)
(declare-const q Int)
(assert (and (<= 1 n) (< n 4294967296) (<= 0 w) (< w 4294967296)))
(assert (= q (div (thr n) n)))
(assert (= (thr n) (* q n)))   ; L-thr-multiple
(assert (< w (thr n)))
(assert (not (and (<= 0 (div w n)) (< (div w n) q) (= w (+ (* (div w n) n) (mod w n))) (<= 0 (mod w n)) (< (mod w n) n))))
(check-sat)
;;@ end

;;@ lemma L-majority props=C01 :: more than half of all 2^32 raw values are accepted, for every bound
(define-fun ispow2 ((n Int)) Bool
  (or (= n 1) (= n 2) (= n 4) (= n 8) (= n 16) (= n 32) (= n 64) (= n 128) (= n 256) (= n 512) (= n 1024) (= n 2048)
      (= n 4096) (= n 8192) (= n 16384) (= n 32768) (= n 65536) (= n 131072) (= n 262144) (= n 524288) (= n 1048576)
      (= n 2097152) (= n 4194304) (= n 8388608) (= n 16777216) (= n 33554432) (= n 67108864) (= n 134217728)
      (= n 268435456) (= n 536870912) (= n 1073741824) (= n 2147483648)))
(define-fun thr ((n Int)) Int (ite (ispow2 n) 4294967296 (- 4294967295 (mod 4294967295 n))))
(declare-const n Int)
(assert (and (<= 1 n) (< n 4294967296)))
(assert (not (> (thr n) 2147483648)))
(check-sat)
;;@ end

;;@ lemma L-minimal props=C01 :: no more raw values are rejected than one incomplete block: 2^32 - thr(n) <= n
(define-fun ispow2 ((n Int)) Bool
  (or (= n 1) (= n 2) (= n 4) (= n 8) (= n 16) (= n 32) (= n 64) (= n 128) (= n 256) (= n 512) (= n 1024) (= n 2048)
      (= n 4096) (= n 8192) (= n 16384) (= n 32768) (= n 65536) (= n 131072) (= n 262144) (= n 524288) (= n 1048576)
      (= n 2097152) (= n 4194304) (= n 8388608) (= n 16777216) (= n 33554432) (= n 67108864) (= n 134217728)
      (= n 268435456) (= n 536870912) (= n 1073741824) (= n 2147483648)))
(define-fun thr ((n Int)) Int (ite (ispow2 n) 4294967296 (- 4294967295 (mod 4294967295 n))))
(declare-const n Int)
(assert (and (<= 1 n) (< n 4294967296)))
(assert (not (<= (- 4294967296 (thr n)) n)))
(check-sat)
;;@ end

;;@ lemma L-functional props=C01,C09,C15 :: the same stream from the same position gives the same choice and consumes the same bytes
(define-fun ispow2 ((n Int)) Bool
  (or (= n 1) (= n 2) (= n 4) (= n 8) (= n 16) (= n 32) (= n 64) (= n 128) (= n 256) (= n 512) (= n 1024) (= n 2048)
      (= n 4096) (= n 8192) (= n 16384) (= n 32768) (= n 65536) (= n 131072) (= n 262144) (= n 524288) (= n 1048576)
      (= n 2097152) (= n 4194304) (= n 8388608) (= n 16777216) (= n 33554432) (= n 67108864) (= n 134217728)
      (= n 268435456) (= n 536870912) (= n 1073741824) (= n 2147483648)))
(define-fun thr ((n Int)) Int (ite (ispow2 n) 4294967296 (- 4294967295 (mod 4294967295 n))))
(declare-fun wd (Int) Int) ; word(tape, q) for the fixed tape
(declare-const n Int)
(declare-const p0 Int)
(declare-const p Int)
(declare-const pp Int)
(declare-const r Int)
(declare-const rr Int)
(define-fun DrawW ((p0 Int) (p Int) (n Int) (r Int)) Bool
  (and (>= p (+ p0 4)) (= (mod (- p p0) 4) 0)
       (forall ((q Int)) (! (=> (and (<= p0 q) (< q (- p 4)) (= (mod (- q p0) 4) 0)) (not (< (wd q) (thr n)))) :pattern ((wd q))))
       (< (wd (- p 4)) (thr n))
       (= r (mod (wd (- p 4)) n))))
(assert (and (<= 1 n) (< n 4294967296)))
(assert (DrawW p0 p n r))
(assert (DrawW p0 pp n rr))
(assert (not (and (= p pp) (= r rr))))
(check-sat)
;;@ end

;;@ lemma B1 props=C01 :: bit-vector fact behind axiom B1-mask-is-mod: for a power of two n, v & (n-1) = v mod n (32-bit)
(set-logic QF_BV)
(declare-const v (_ BitVec 32))
(declare-const n (_ BitVec 32))
(assert (not (= n #x00000000)))
(assert (= (bvand n (bvsub n #x00000001)) #x00000000))
(assert (not (= (bvand v (bvsub n #x00000001)) (bvurem v n))))
(check-sat)
;;@ end

;;@ lemma B2 props=C01 :: bit-vector fact behind axiom B2-pow2-test: n != 0 and n & (n-1) == 0 iff n is one of 2^0..2^31
(set-logic QF_BV)
(declare-const n (_ BitVec 32))
(define-fun p2 ((n (_ BitVec 32))) Bool (or
 (= n #x00000001) (= n #x00000002) (= n #x00000004) (= n #x00000008) (= n #x00000010) (= n #x00000020) (= n #x00000040) (= n #x00000080)
 (= n #x00000100) (= n #x00000200) (= n #x00000400) (= n #x00000800) (= n #x00001000) (= n #x00002000) (= n #x00004000) (= n #x00008000)
 (= n #x00010000) (= n #x00020000) (= n #x00040000) (= n #x00080000) (= n #x00100000) (= n #x00200000) (= n #x00400000) (= n #x00800000)
 (= n #x01000000) (= n #x02000000) (= n #x04000000) (= n #x08000000) (= n #x10000000) (= n #x20000000) (= n #x40000000) (= n #x80000000)))
(assert (not (= n #x00000000)))
(assert (not (= (= (bvand n (bvsub n #x00000001)) #x00000000) (p2 n))))
(check-sat)
;;@ end

;;@ lemma B0 props=C01 :: bit-vector fact behind axiom B0-band-range: x & y <= x and x & y <= y (unsigned)
(set-logic QF_BV)
(declare-const x (_ BitVec 32))
(declare-const y (_ BitVec 32))
(assert (not (and (bvule (bvand x y) x) (bvule (bvand x y) y))))
(check-sat)
;;@ end
