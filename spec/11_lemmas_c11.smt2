; Induction lemmas behind the PROVED axioms CSUM-mono and PSUM-CSUM (each: a step script whose
; hypotheses are the definitions plus the induction hypothesis for j; the base case is in the same script).

;;@ lemma L-csum-mono props=C11 :: csum(A,off,i) <= csum(A,off,j) for 0 <= i <= j (induction on j: base j = i, step j -> j+1)
(declare-sort Str 0)
(declare-fun clen (Str) Int)
(declare-sort Tok 0)
(declare-fun val (Tok) Str)
(declare-fun csum ((Array Int Tok) Int Int) Int)
(assert (forall ((s Str)) (>= (clen s) 0)))
(declare-const A (Array Int Tok))
(declare-const off Int)
(assert (forall ((j Int)) (! (=> (> j 0) (= (csum A off j) (+ (csum A off (- j 1)) (clen (val (select A (+ off (- j 1)))))))) :pattern ((csum A off j)))))
(declare-const i Int)
(declare-const j Int)
(assert (and (<= 0 i) (<= i j)))
; induction hypothesis at j (for this i); base case i = j is trivial; claim at j+1
(assert (<= (csum A off i) (csum A off j)))
(assert (not (<= (csum A off i) (csum A off (+ j 1)))))
(check-sat)
;;@ end

;;@ lemma L-csum-nonneg props=C11 :: csum(A,off,j) >= 0 for j >= 0, from csum(A,off,0) = 0 and monotonicity
(declare-sort Tok 0)
(declare-fun csum ((Array Int Tok) Int Int) Int)
(declare-const A (Array Int Tok))
(declare-const off Int)
(declare-const j Int)
(assert (= (csum A off 0) 0))
(assert (forall ((i Int) (k Int)) (=> (and (<= 0 i) (<= i k)) (<= (csum A off i) (csum A off k)))))
(assert (>= j 0))
(assert (not (>= (csum A off j) 0)))
(check-sat)
;;@ end

;;@ lemma L-kindof-elim props=C11 :: the consequences KINDOF-elim follow from the definition KINDOF-def
(declare-const aa Bool)
(declare-const ao Bool)
(declare-const al Bool)
(define-fun k () Int (ite (and aa ao) 0 (ite aa 1 (ite al 2 3))))
(assert (not (and (<= 0 k) (<= k 3) (=> (= k 0) (and aa ao)) (=> (= k 1) aa) (=> (= k 2) al))))
(check-sat)
;;@ end

;;@ lemma L-psum-mono props=C11,C12 :: for non-negative entries and 0 <= i <= j: psum(i) <= psum(j), and for i < j also psum(i) + A[idx(o, b+s*i)] <= psum(j) (induction on j)
(declare-fun idx (Int Int) Int)
(declare-fun psum ((Array Int Int) Int Int Int Int) Int)
(declare-const A (Array Int Int))
(declare-const o Int)
(declare-const b Int)
(declare-const s Int)
(assert (forall ((j Int)) (! (=> (>= j 0) (= (psum A o b s (+ j 1)) (+ (psum A o b s j) (select A (idx o (+ b (* s j))))))) :pattern ((psum A o b s (+ j 1))))))
(assert (forall ((x Int)) (>= (select A x) 0)))
(declare-const i Int)
(declare-const j Int)
(assert (and (<= 0 i) (<= i j)))
(define-fun P ((n Int)) Bool (and (<= (psum A o b s i) (psum A o b s n)) (=> (< i n) (<= (+ (psum A o b s i) (select A (idx o (+ b (* s i))))) (psum A o b s n)))))
; base: P(i); step: P(j) => P(j+1)
(assert (not (and (P i) (=> (P j) (P (+ j 1))))))
(check-sat)
;;@ end
