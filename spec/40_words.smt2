; Word lists (C10, C08, C04, C05).

;;@ axiom TITLE-idempotent trigger=title :: T-STR: strings.Title is idempotent and maps "" to "" (audited against the real function: exhaustive over runes for the per-rune mapping)
(assert (forall ((s Str)) (! (= (title (title s)) (title s)) :pattern ((title s)))))
;;@ axiom TITLE-eps trigger=title,eps :: T-STR: strings.Title("") = ""
(assert (= (title eps) eps))

; inS(A,off,n,w): w occurs among the n strings A[off..off+n)
(define-fun inS ((A (Array Int Str)) (off Int) (n Int) (w Str)) Bool
  (exists ((i Int)) (and (<= 0 i) (< i n) (= (select A (idx off i)) w))))
; keptS(A,off,n,w): w is kept by normalisation of the list: it occurs, and it is not the
; title-cased form of another listed word (from the statement of C10)
(define-fun keptS ((A (Array Int Str)) (off Int) (n Int) (w Str)) Bool
  (and (inS A off n w)
       (not (exists ((v Str)) (and (inS A off n v) (not (= v w)) (= (title v) w))))))

; normOf(W,wo,wn, A,o,n): the strings W[wo..wo+wn) are, as a set, the normalisation of the list A[o..o+n)
; (opaque for callers; its definition is opt-in)
(declare-fun normOf ((Array Int Str) Int Int (Array Int Str) Int Int) Bool)
;;@ axiom NORMOF-def optin trigger=normOf :: definition of normOf: exactly the kept words occur
(assert (forall ((W (Array Int Str)) (wo Int) (wn Int) (A (Array Int Str)) (o Int) (n Int))
  (! (= (normOf W wo wn A o n) (forall ((w Str)) (= (inS W wo wn w) (keptS A o n w)))) :pattern ((normOf W wo wn A o n)))))
