; Word lists (C10, C08, C04, C05).

;;@ axiom TITLE-idempotent trigger=title :: T-STR: strings.Title is idempotent and maps "" to "" (audited against the real function: exhaustive over runes for the per-rune mapping)
(assert (forall ((s Str)) (! (= (title (title s)) (title s)) :pattern ((title s)))))
;;@ axiom TITLE-eps trigger=title,eps :: T-STR: strings.Title("") = ""
(assert (= (title eps) eps))

; inS(A,off,n,w): w occurs among the n strings A[off..off+n)
(define-fun inS ((A (Array Int Str)) (off Int) (n Int) (w Str)) Bool
  (exists ((i Int)) (and (<= 0 i) (< i n) (= (select A (idx off i)) w))))
; keptS(A,off,n,w): w is kept by normalisation of the list: it occurs, and it is not the
; title-cased form of another listed word (from the statement of C10)
(define-fun keptS ((A (Array Int Str)) (off Int) (n Int) (w Str)) Bool
  (and (inS A off n w)
       (not (exists ((v Str)) (and (inS A off n v) (not (= v w)) (= (title v) w))))))
