; Core spec prelude for the spg contracts. SMT-LIB 2; items are selected per query
; by the symbols a verification condition mentions (see govc/sexp.go).
; ";;@ axiom NAME [trigger=f,g] :: text" marks a trusted fact (listed in evidence when used).
; ";;@ ghost NAME SORT" declares ghost state.

;;@ ghost tape (Array Int Int)
;;@ ghost pos Int
;;@ ghost ctr Int
;;@ ghost sfcalls Int
;;@ ghost emitted Int

(declare-sort Str 0)
(declare-fun eps () Str)
(declare-fun blen (Str) Int)
(declare-fun clen (Str) Int)
(declare-fun cat (Str Str) Str)
(declare-fun pieces (Str) (Array Int Str))
(declare-fun joinseg ((Array Int Str) Int Int) Str)
(declare-fun title (Str) Str)
(declare-fun containsAny (Str Str) Bool)
(declare-fun boxStr (Str) Int)
(declare-fun unboxStr (Int) Str)
(declare-fun isStr (Int) Bool)
(declare-fun boxInt (Int) Int)
(declare-fun card ((Array Str Bool)) Int)
(declare-fun log2 (Real) Real)
(declare-fun exp2 (Real) Real)
(declare-fun rpow (Real Real) Real)
(declare-fun sepval (Int Int) Str)
(declare-fun sfent (Int) Real)
(declare-fun sortedperm ((Array Int Str) (Array Int Str) Int Int) Bool)
(declare-fun rngfail (Int) Bool)
(declare-fun oracle (Int Int) Int)
(declare-fun band32 (Int Int) Int)
(declare-fun bor32 (Int Int) Int)
; operators the engine does not interpret (a deterministic function of the operands is all that is known)
(declare-fun shlU (Int Int) Int)
(declare-fun shrU (Int Int) Int)
(declare-fun bxorU (Int Int) Int)
(declare-fun bandnotU (Int Int) Int)
(declare-fun runeStr (Int) Str)
(declare-fun substr (Str Int Int) Str)

;;@ axiom STR-len-nonneg trigger=clen :: T-STR: character counts are non-negative
(assert (forall ((s Str)) (! (<= 0 (clen s)) :pattern ((clen s)))))
;;@ axiom STR-clen-le-blen trigger=clen,blen :: T-STR: a string has at most as many characters as bytes
(assert (forall ((s Str)) (! (<= (clen s) (blen s)) :pattern ((clen s) (blen s)))))
;;@ axiom STR-blen-nonneg trigger=blen :: T-STR: byte length is non-negative
(assert (forall ((s Str)) (! (<= 0 (blen s)) :pattern ((blen s)))))
;;@ axiom STR-eps trigger=eps,clen :: T-STR: a string has no characters iff it has no bytes iff it is the empty string
(assert (and (= (clen eps) 0) (= (blen eps) 0) (forall ((s Str)) (! (=> (= (clen s) 0) (= s eps)) :pattern ((clen s))))))
;;@ axiom STR-eps-b trigger=eps,blen :: T-STR: blen(s)=0 iff s is empty
(assert (and (= (blen eps) 0) (forall ((s Str)) (! (=> (= (blen s) 0) (= s eps)) :pattern ((blen s))))))
;;@ axiom BOX-str trigger=boxStr :: interface boxing of strings is injective and recognisable
(assert (forall ((s Str)) (! (and (= (unboxStr (boxStr s)) s) (isStr (boxStr s))) :pattern ((boxStr s)))))

; ---------- random source (C01, C09) ----------
(define-fun word ((t (Array Int Int)) (p Int)) Int
  (+ (* 16777216 (select t p)) (* 65536 (select t (+ p 1))) (* 256 (select t (+ p 2))) (select t (+ p 3))))
(define-fun ispow2 ((n Int)) Bool
  (or (= n 1) (= n 2) (= n 4) (= n 8) (= n 16) (= n 32) (= n 64) (= n 128) (= n 256) (= n 512) (= n 1024) (= n 2048)
      (= n 4096) (= n 8192) (= n 16384) (= n 32768) (= n 65536) (= n 131072) (= n 262144) (= n 524288) (= n 1048576)
      (= n 2097152) (= n 4194304) (= n 8388608) (= n 16777216) (= n 33554432) (= n 67108864) (= n 134217728)
      (= n 268435456) (= n 536870912) (= n 1073741824) (= n 2147483648)))
; thr(n): number of raw 32-bit values accepted for bound n = largest multiple of n
; not exceeding 2^32-1 (all 2^32 values when n is a power of two, which divides 2^32)
(define-fun thr ((n Int)) Int (ite (ispow2 n) 4294967296 (- 4294967295 (mod 4294967295 n))))
(define-fun acc ((n Int) (w Int)) Bool (< w (thr n)))
(define-fun pick ((n Int) (w Int)) Int (mod w n))
; Draw(t,p0,p,n,r): reading 4-byte words from position p0, every word before the last is
; rejected, the last one (at p-4) is accepted and r is its residue; exactly [p0,p) was consumed.
(define-fun Draw ((t (Array Int Int)) (p0 Int) (p Int) (n Int) (r Int)) Bool
  (and (>= p (+ p0 4)) (= (mod (- p p0) 4) 0)
       (forall ((q Int)) (=> (and (<= p0 q) (< q (- p 4)) (= (mod (- q p0) 4) 0)) (not (acc n (word t q)))))
       (acc n (word t (- p 4)))
       (= r (pick n (word t (- p 4))))))
;;@ axiom B1-mask-is-mod trigger=band32 :: A-BV/B1 (proved in QF_BV, lemma B1): for a power of two n, v & (n-1) = v mod n on 32-bit values
(assert (forall ((v Int) (m Int)) (! (=> (and (<= 0 v) (< v 4294967296) (<= 0 m) (ispow2 (+ m 1))) (= (band32 v m) (mod v (+ m 1)))) :pattern ((band32 v m)))))
;;@ axiom B2-pow2-test trigger=band32 :: A-BV/B2 (proved in QF_BV, lemma B2): for 1 <= n < 2^32, n & (n-1) == 0 iff n is a power of two
(assert (forall ((n Int) (m Int)) (! (=> (and (<= 1 n) (< n 4294967296) (= m (- n 1))) (= (= (band32 n m) 0) (ispow2 n))) :pattern ((band32 n m)))))
;;@ axiom B0-band-range trigger=band32 :: A-BV: x & y is within [0, min(x,y)] for non-negative operands
(assert (forall ((x Int) (y Int)) (! (=> (and (<= 0 x) (<= 0 y)) (and (<= 0 (band32 x y)) (<= (band32 x y) x) (<= (band32 x y) y))) :pattern ((band32 x y)))))
