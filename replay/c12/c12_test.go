package spg

import (
	"strings"
	"testing"
)

type c12In struct {
	Pw      string  `json:"password"`
	PwBytes []byte  `json:"password_bytes"`
	Ti      []byte  `json:"index"`
	Entropy float32 `json:"entropy"`
}

// c12Oracle decides what the property requires, from the statement alone.
func c12Oracle(pw string, ti []byte, ent float32) (bad bool, obs, req string) {
	chars := strings.Split(pw, "")
	var p Password
	var err error
	pn := func() (r interface{}) {
		defer func() { r = recover() }()
		p, err = Tokenize(pw, Indices(ti), ent)
		return nil
	}()
	if pn != nil {
		return true, vSprint("panic: ", pn), "an error or tokens, never a panic"
	}
	if p.Entropy != ent {
		return true, vSprint("entropy ", p.Entropy), vSprint("the entropy passed in, ", ent)
	}
	// what must be an error
	mustErr := ""
	var want []int
	var types []int
	switch {
	case len(ti) == 0:
		mustErr = "empty index"
	case ti[0] > 3:
		mustErr = "unknown kind byte"
	case ti[0] == 0:
		for range chars {
			want = append(want, 1)
			types = append(types, 1)
		}
	case ti[0] == 1 || ti[0] == 2:
		for i, l := range ti[1:] {
			want = append(want, int(l))
			if ti[0] == 2 && i%2 == 1 {
				types = append(types, 0)
			} else {
				types = append(types, 1)
			}
		}
	case ti[0] == 3:
		if len(ti)%2 == 0 {
			mustErr = "truncated full index (a length byte without its type byte)"
		} else {
			for i := 1; i < len(ti); i += 2 {
				want = append(want, int(ti[i]))
				types = append(types, int(ti[i+1]))
			}
		}
	}
	total := 0
	for _, w := range want {
		total += w
	}
	if mustErr == "" && total > len(chars) {
		mustErr = "lengths exceed the string"
	}
	if mustErr != "" {
		if err == nil {
			return true, "no error, tokens " + vSprint(p.tokens), "an error: " + mustErr
		}
		return false, "", ""
	}
	if err != nil {
		return false, "", "" // extra errors are not forbidden by C12
	}
	if len(p.tokens) != len(want) {
		return true, vSprint(len(p.tokens), " tokens"), vSprint(len(want), " tokens")
	}
	pos := 0
	for j, tk := range p.tokens {
		exp := strings.Join(chars[pos:pos+want[j]], "")
		if tk.value != exp || int(tk.tType) != types[j] {
			return true, vSprint("token ", j, " = ", []byte(tk.value), " type ", tk.tType), vSprint("consecutive slice ", []byte(exp), " (", want[j], " characters from character ", pos, ") type ", types[j])
		}
		pos += want[j]
	}
	return false, "", ""
}

func TestVerifReplay(t *testing.T) {
	req := vLoad()
	defer vFlush()
	r := &vRng{s: uint64(req.Seed)*104729 + 11}
	try := func(pw string, ti []byte) bool {
		if bad, obs, rq := c12Oracle(pw, ti, 1.5); bad {
			vReport(vHit{Input: c12In{pw, []byte(pw), ti, 1.5}, Observed: obs, Required: rq})
			return true
		}
		return false
	}
	pws := []string{"", "a", "abcd", "correct horse", "日本語", "é", "aé日\xff\xfeb", "\xff", "\xc3", "ab\xc3\xa9cd", strings.Repeat("x", 300), strings.Repeat("日", 260)}
	n := 40000
	if req.Tier == "thorough" {
		n = 600000
	}
	// systematic small indices
	for _, pw := range pws {
		for k := 0; k < 6; k++ {
			for a := 0; a < 5; a++ {
				for b := 0; b < 5; b++ {
					for c := 0; c < 3; c++ {
						cands := [][]byte{{}, {byte(k)}, {byte(k), byte(a)}, {byte(k), byte(a), byte(b)}, {byte(k), byte(a), byte(b), byte(c)}, {byte(k), byte(a), byte(b), byte(c), byte(a)}, {byte(k), byte(a), 7, byte(b), 200, byte(c), 1}}
						for _, ti := range cands {
							if try(pw, ti) {
								return
							}
						}
					}
				}
			}
		}
	}
	for i := 0; i < n; i++ {
		pw := pws[r.intn(len(pws))]
		if r.intn(3) == 0 {
			b := make([]byte, r.intn(12))
			for j := range b {
				b[j] = byte(r.next())
			}
			pw = string(b)
		}
		l := r.intn(9)
		ti := make([]byte, l)
		for j := range ti {
			switch r.intn(4) {
			case 0:
				ti[j] = byte(r.next())
			default:
				ti[j] = byte(r.intn(5))
			}
		}
		if l > 0 && r.intn(4) != 0 {
			ti[0] = byte(r.intn(4))
		}
		if try(pw, ti) {
			return
		}
	}
}
