package spg

import (
	"testing"
)

// Oracle written from the property statement: the largest multiple of n not
// exceeding 2^32-1 bounds the accepted raw values (all 2^32 when n divides 2^32).
func c01Thr(n uint64) uint64 {
	if (uint64(1)<<32)%n == 0 {
		return 1 << 32
	}
	return (1<<32 - 1) - (1<<32-1)%n
}

func c01Check(n uint32, words []uint32) (bad bool, observed, required string) {
	thr := c01Thr(uint64(n))
	// expected: first accepted word
	want := -1
	for i, w := range words {
		if uint64(w) < thr {
			want = i
			break
		}
	}
	if want < 0 {
		return false, "", "" // script has no accepted word: not a valid probe
	}
	tape := newTape(vWords(words...))
	tape.filler = 0
	var res uint32
	p := vWithTape(tape, func() { res = randomUint32n(n) })
	if p != nil {
		return true, vSprint("panic: ", p), "a result in [0,n)"
	}
	wantRes := uint32(uint64(words[want]) % uint64(n))
	wantBytes := 4 * (want + 1)
	if res != wantRes || tape.pos != wantBytes || res >= n {
		return true, vSprint("result ", res, " after consuming ", tape.pos, " bytes"),
			vSprint("result ", wantRes, " (first accepted raw word ", words[want], " mod n) after consuming exactly ", wantBytes, " bytes; accepted iff raw < ", thr)
	}
	return false, "", ""
}

func TestVerifReplay(t *testing.T) {
	req := vLoad()
	defer vFlush()
	type probe struct {
		N     uint32   `json:"n"`
		Words []uint32 `json:"raw_words"`
	}
	try := func(obl string, n uint32, words []uint32) bool {
		if n == 0 {
			return false
		}
		if bad, obs, reqd := c01Check(n, words); bad {
			vReport(vHit{Obligation: obl, Input: probe{n, words}, Observed: obs, Required: reqd})
			return true
		}
		return false
	}
	// 1. models from the verifier
	for _, f := range req.Findings {
		nv, ok := vInt(f.Model["n"])
		if !ok || nv < 1 || nv > 1<<32-1 {
			continue
		}
		var words []uint32
		for k := 0; k < 4; k++ {
			var w uint64
			okw := true
			for b := 0; b < 4; b++ {
				v, ok := vInt(f.Model[vSprint("tape+", 4*k+b)])
				if !ok {
					okw = false
					break
				}
				w = w<<8 | uint64(v&255)
			}
			if !okw {
				break
			}
			words = append(words, uint32(w))
		}
		words = append(words, 0) // an accepted word to end the script
		try(f.Obligation, uint32(nv), words)
	}
	if len(vHits) > 0 {
		return
	}
	// 2. search: bounds around every power of two and the extremes, raw words at the acceptance boundary
	var ns []uint32
	for n := uint32(1); n <= 70; n++ {
		ns = append(ns, n)
	}
	for k := uint(6); k < 32; k++ {
		for d := -2; d <= 2; d++ {
			ns = append(ns, uint32(int64(1)<<k+int64(d)))
		}
	}
	ns = append(ns, 1<<32-1, 1<<32-2, 1<<31+1, 3<<30, 7776, 18328, 10007)
	r := &vRng{s: uint64(req.Seed)*2654435761 + 1}
	// long runs of rejected values: every one of them must be redrawn, however many there are
	for _, n := range []uint32{3, 5, 6, 7, 10, 1<<31 + 1, 3 << 30} {
		thr := c01Thr(uint64(n))
		if thr >= 1<<32 {
			continue
		}
		for _, run := range []int{1, 2, 31, 32, 33, 63, 64, 65, 66, 127, 128, 129, 300} {
			words := make([]uint32, 0, run+1)
			for i := 0; i < run; i++ {
				words = append(words, uint32(thr)+uint32(i)%uint32(1<<32-thr))
			}
			words = append(words, 5)
			if try("", n, words) {
				return
			}
		}
	}
	for _, n := range ns {
		thr := c01Thr(uint64(n))
		cands := []uint32{0, 1, uint32(n - 1), n, uint32(thr - 1), 1<<32 - 1, uint32(r.next())}
		if thr < 1<<32 {
			cands = append(cands, uint32(thr), uint32(thr+1), uint32((thr+1<<32-1)/2))
		}
		for _, w0 := range cands {
			if try("", n, []uint32{w0, 0}) {
				return
			}
			for _, w1 := range cands {
				if try("", n, []uint32{w0, w1, 5 % n}) {
					return
				}
			}
		}
	}
}
