package main

import (
	"bytes"
	"encoding/json"
	"fmt"
	"io/ioutil"
	"os"
	"os/exec"
	"path/filepath"
	"strings"
	"testing"

	"go.1password.io/spg"
)

// C17 replay: the real opgen binary is built from the current tree and run with many command
// lines; exit status and standard output are compared with what the equivalent library recipe
// (built here directly from the documented tables) allows.

type c17Hit struct {
	Obligation string      `json:"obligation"`
	Input      interface{} `json:"input"`
	Observed   string      `json:"observed"`
	Required   string      `json:"required"`
}

var c17Hits []c17Hit

func c17Report(h c17Hit) {
	if len(c17Hits) < 10 {
		c17Hits = append(c17Hits, h)
		b, _ := json.MarshalIndent(c17Hits, "", " ")
		ioutil.WriteFile(os.Getenv("VERIF_REPLAY_OUT"), b, 0o644)
	}
}

var c17Class = map[string]spg.CTFlag{"uppercase": spg.Uppers, "lowercase": spg.Lowers, "digits": spg.Digits, "symbols": spg.Symbols, "ambiguous": spg.Ambiguous}
var c17Chars = map[spg.CTFlag]string{spg.Uppers: "ABCDEFGHIJKLMNOPQRSTUVWXYZ", spg.Lowers: "abcdefghijklmnopqrstuvwxyz", spg.Digits: "0123456789", spg.Symbols: "!@.-_*", spg.Ambiguous: "0O1Il5S"}

func c17Flags(v string, dflt spg.CTFlag) spg.CTFlag {
	if v == "" {
		return dflt
	}
	var f spg.CTFlag
	for _, w := range strings.Split(strings.Replace(v, " ", "", -1), ",") {
		f |= c17Class[w]
	}
	return f
}

func c17Run(bin string, args ...string) (stdout string, status int) {
	cmd := exec.Command(bin, args...)
	var out bytes.Buffer
	cmd.Stdout = &out
	err := cmd.Run()
	status = 0
	if ee, ok := err.(*exec.ExitError); ok {
		status = ee.ExitCode()
	} else if err != nil {
		status = -1
	}
	return out.String(), status
}

func c17Lines(s string) []string {
	if s == "" {
		return nil
	}
	return strings.Split(strings.TrimSuffix(s, "\n"), "\n")
}

func TestVerifReplay(t *testing.T) {
	defer func() {
		b, _ := json.MarshalIndent(c17Hits, "", " ")
		ioutil.WriteFile(os.Getenv("VERIF_REPLAY_OUT"), b, 0o644)
	}()
	tmp, err := ioutil.TempDir("", "verif-c17-")
	if err != nil {
		t.Fatal(err)
	}
	defer os.RemoveAll(tmp)
	bin := filepath.Join(tmp, "opgen")
	if out, err := exec.Command("go", "build", "-o", bin, ".").CombinedOutput(); err != nil {
		t.Fatalf("build: %v %s", err, out)
	}
	// ---- usage errors: status 2, no password
	for _, args := range [][]string{{}, {"bogus"}, {"recipe"}, {"words", "--list=nosuchlist"}, {"characters", "--nosuchflag"}, {"words", "--size"}, {"-x"}} {
		out, st := c17Run(bin, args...)
		if st != 2 {
			c17Report(c17Hit{Input: args, Observed: fmt.Sprint("exit status ", st, ", stdout ", len(c17Lines(out)), " line(s)"), Required: "exit status 2 for a missing or unknown subcommand, unknown flag or unknown list"})
			return
		}
	}
	// ---- character recipes
	type cc struct{ length, allow, require, exclude string }
	var ccs []cc
	vals := []string{"", "digits", "lowercase", "uppercase,digits", "symbols", "digits, lowercase", "ambiguous", "lowercase,uppercase,digits,symbols", "digits,bogus", "digits,", " ", "dig", "DIGITS"}
	for _, a := range vals {
		for _, r := range []string{"", "digits", "uppercase,symbols", "ambiguous"} {
			for _, x := range []string{"", "ambiguous", "digits", "lowercase,uppercase"} {
				ccs = append(ccs, cc{"", a, r, x})
			}
		}
	}
	ccs = append(ccs, cc{"1", "", "", ""}, cc{"64", "digits", "", ""}, cc{"0", "", "", ""}, cc{"-3", "", "", ""}, cc{"12", "digits", "", "digits"}, cc{"2", "lowercase", "digits,uppercase,symbols", ""})
	for _, c := range ccs {
		var args []string
		args = append(args, "characters")
		L := 20
		if c.length != "" {
			args = append(args, "--length="+c.length)
			fmt.Sscan(c.length, &L)
		}
		if c.allow != "" {
			args = append(args, "--allow="+c.allow)
		}
		if c.require != "" {
			args = append(args, "--require="+c.require)
		}
		if c.exclude != "" {
			args = append(args, "--exclude="+c.exclude)
		}
		r := spg.CharRecipe{Length: L, Allow: c17Flags(c.allow, spg.Uppers|spg.Lowers|spg.Digits|spg.Symbols), Require: c17Flags(c.require, 0), Exclude: c17Flags(c.exclude, spg.Ambiguous)}
		_, gerr := r.Generate()
		out, st := c17Run(bin, args...)
		lines := c17Lines(out)
		in := map[string]interface{}{"args": args, "equivalent_recipe": fmt.Sprintf("CharRecipe{Length:%d, Allow:%d, Require:%d, Exclude:%d}", r.Length, r.Allow, r.Require, r.Exclude)}
		if gerr != nil {
			if st != 1 {
				c17Report(c17Hit{Input: in, Observed: fmt.Sprint("exit status ", st, " stdout ", out), Required: "exit status 1: the library refuses this recipe (" + gerr.Error() + ")"})
				return
			}
			continue
		}
		if st != 0 || len(lines) != 1 || !strings.HasSuffix(out, "\n") {
			c17Report(c17Hit{Input: in, Observed: fmt.Sprintf("exit status %d, %d line(s) on standard output: %q", st, len(lines), out), Required: "exit status 0 and exactly one newline-terminated line"})
			return
		}
		pw := lines[0]
		alpha := r.Alphabet()
		bad := len([]rune(pw)) != L
		for _, ch := range strings.Split(pw, "") {
			if !strings.Contains(alpha, ch) {
				bad = true
			}
		}
		for f, chars := range c17Chars {
			if r.Require&f != 0 {
				left := ""
				for _, ch := range strings.Split(chars, "") {
					if strings.Contains(alpha, ch) {
						left += ch
					}
				}
				if left != "" && !strings.ContainsAny(pw, left) {
					bad = true
				}
			}
		}
		if bad {
			c17Report(c17Hit{Input: in, Observed: "password " + pw, Required: fmt.Sprintf("a password the equivalent library recipe could generate: %d characters over %s with every required class", L, alpha)})
			return
		}
		out, st = c17Run(bin, append(args, "--entropy")...)
		want := fmt.Sprintf("%.2f\n", r.Entropy())
		if st != 0 || out != want {
			c17Report(c17Hit{Input: map[string]interface{}{"args": append(args, "--entropy"), "equivalent_recipe": in["equivalent_recipe"]}, Observed: fmt.Sprintf("exit status %d, standard output %q", st, out), Required: fmt.Sprintf("exit status 0 and the recipe's entropy to two decimals: %q", want)})
			return
		}
	}
	// ---- wordlist recipes
	files := map[string]string{
		"plain.txt": "alpha\nbravo\ncharlie\ndelta\n",
		"dup.txt":   "alpha\nbravo\nalpha\ncharlie\nbravo \n",
		"crlf.txt":  "alpha\r\nbravo\r\ncharlie\r\nalpha\r\n",
		"multi.txt": "alpha bravo\tcharlie\n\n  delta  echo\n",
		"twin.txt":  "polish\nPolish\napple\n",
		"empty.txt": " \n\t\n",
		"case.txt":  "polish POLISH apple banana\n",
		"cap.txt":   "Paris paris rome oslo\n",
	}
	for n, c := range files {
		ioutil.WriteFile(filepath.Join(tmp, n), []byte(c), 0o644)
	}
	sepRe := map[string]func(string) bool{
		"hyphen": func(s string) bool { return s == "-" }, "space": func(s string) bool { return s == " " }, "comma": func(s string) bool { return s == "," },
		"period": func(s string) bool { return s == "." }, "underscore": func(s string) bool { return s == "_" },
		"digit": func(s string) bool { return len(s) == 1 && s[0] >= '0' && s[0] <= '9' }, "none": func(s string) bool { return s == "" },
	}
	sepFn := map[string]spg.SFFunction{"hyphen": func() (string, spg.FloatE) { return "-", 0 }, "space": func() (string, spg.FloatE) { return " ", 0 }, "comma": func() (string, spg.FloatE) { return ",", 0 },
		"period": func() (string, spg.FloatE) { return ".", 0 }, "underscore": func() (string, spg.FloatE) { return "_", 0 }, "digit": spg.SFDigits1, "none": spg.SFNone}
	capOf := map[string]spg.CapScheme{"none": spg.CSNone, "first": spg.CSFirst, "all": spg.CSAll, "random": spg.CSRandom, "one": spg.CSOne}
	type wc struct{ list, file, size, sep, cap string }
	var wcs []wc
	for _, f := range []string{"plain.txt", "dup.txt", "crlf.txt", "multi.txt", "twin.txt", "case.txt", "cap.txt"} {
		for _, sp := range []string{"", "space", "digit", "none", "underscore"} {
			for _, cp := range []string{"", "first", "all", "one", "random"} {
				wcs = append(wcs, wc{"", f, "3", sp, cp})
			}
		}
	}
	wcs = append(wcs, wc{"", "", "", "", ""}, wc{"words", "", "6", "comma", "one"}, wc{"syllables", "", "5", "period", "random"}, wc{"syllables", "", "1", "", ""}, wc{"", "empty.txt", "", "", ""}, wc{"", "plain.txt", "0", "", ""}, wc{"", "nosuchfile.txt", "", "", ""})
	for _, c := range wcs {
		args := []string{"words"}
		size := 4
		var src []string
		switch {
		case c.file != "":
			args = append(args, "--file="+filepath.Join(tmp, c.file))
			src = strings.Fields(files[c.file])
		case c.list == "syllables":
			args = append(args, "--list=syllables")
			src = spg.AgileSyllables
		default:
			if c.list != "" {
				args = append(args, "--list="+c.list)
			}
			src = spg.AgileWords
		}
		if c.size != "" {
			args = append(args, "--size="+c.size)
			fmt.Sscan(c.size, &size)
		}
		sep, cp := "hyphen", "none"
		if c.sep != "" {
			args = append(args, "--separator="+c.sep)
			sep = c.sep
		}
		if c.cap != "" {
			args = append(args, "--capitalize="+c.cap)
			cp = c.cap
		}
		in := map[string]interface{}{"args": args}
		if c.file != "" {
			in["file_content"] = files[c.file]
		}
		devnull, _ := os.Open(os.DevNull)
		saved := os.Stderr
		os.Stderr, _ = os.OpenFile(os.DevNull, os.O_WRONLY, 0)
		wl, werr := spg.NewWordList(src)
		os.Stderr = saved
		devnull.Close()
		out, st := c17Run(bin, args...)
		lines := c17Lines(out)
		if werr != nil || size < 1 || (c.file != "" && files[c.file] == "") {
			if st != 1 || len(lines) != 0 {
				c17Report(c17Hit{Input: in, Observed: fmt.Sprintf("exit status %d, standard output %q", st, out), Required: "exit status 1 and no output: the library refuses this recipe"})
				return
			}
			continue
		}
		if st != 0 || len(lines) != 1 || !strings.HasSuffix(out, "\n") {
			c17Report(c17Hit{Input: in, Observed: fmt.Sprintf("exit status %d, %d line(s) on standard output: %q", st, len(lines), out), Required: "exit status 0 and exactly one newline-terminated line: the password"})
			return
		}
		// parse the password: words of the normalised list (possibly title-cased), separated by the separator
		r := spg.NewWLRecipe(size, wl)
		r.SeparatorFunc = sepFn[sep]
		r.Capitalize = capOf[cp]
		known := map[string]bool{}
		os.Stderr, _ = os.OpenFile(os.DevNull, os.O_WRONLY, 0)
		pw, _ := r.Generate()
		os.Stderr = saved
		_ = pw
		kept := map[string]bool{}
		for _, w := range src {
			kept[w] = true
		}
		for _, w := range src {
			if tw := strings.Title(w); tw != w && kept[tw] {
				delete(kept, tw)
			}
		}
		for w := range kept {
			known[w] = true
			known[strings.Title(w)] = true
		}
		rest := lines[0]
		ok := true
		var isCap []bool // per word: it appears in title-cased form that differs from a kept word
		for i := 0; i < size && ok; i++ {
			best := ""
			for w := range known {
				if strings.HasPrefix(rest, w) && len(w) > len(best) {
					tail := rest[len(w):]
					if i == size-1 && tail == "" || i < size-1 && (sepRe[sep]("") || len(tail) > 0 && sepRe[sep](tail[:1])) {
						best = w
					}
				}
			}
			if best == "" {
				ok = false
				break
			}
			isCap = append(isCap, !kept[best])
			if kept[best] && strings.Title(best) != best && (cp == "all" || cp == "first" && i == 0) {
				ok = false // this word had to be capitalised
			}
			rest = rest[len(best):]
			if i < size-1 && !sepRe[sep]("") {
				rest = rest[1:]
			}
		}
		if ok {
			n := 0
			for i, c := range isCap {
				if c {
					n++
					if cp == "none" || cp == "first" && i > 0 {
						ok = false
					}
				}
			}
			if cp == "one" && n > 1 {
				ok = false
			}
		}
		if !ok || rest != "" {
			c17Report(c17Hit{Input: in, Observed: "password " + lines[0], Required: fmt.Sprintf("%d words of the normalised list %v (capitalised per scheme %q) separated by %q separators", size, keys(kept), cp, sep)})
			return
		}
		out, st = c17Run(bin, append(args, "--entropy")...)
		want := fmt.Sprintf("%.2f\n", r.Entropy())
		if st != 0 || out != want {
			c17Report(c17Hit{Input: map[string]interface{}{"args": append(args, "--entropy"), "file_content": in["file_content"]}, Observed: fmt.Sprintf("exit status %d, standard output %q", st, out), Required: fmt.Sprintf("exit status 0 and the recipe's entropy to two decimals: %q", want)})
			return
		}
	}
}

func keys(m map[string]bool) []string {
	var out []string
	for k := range m {
		out = append(out, k)
		if len(out) > 12 {
			out = append(out, "...")
			break
		}
	}
	return out
}
