package spg

import (
	"encoding/json"
	"math"
	"os"
	"sort"
	"strings"
	"testing"
)

type c16Stats struct {
	Evaluations        int           `json:"evaluations"`
	DistinctNontrivial int           `json:"distinct_nontrivial"`
	Rule               string        `json:"rule"`
	Samples            []interface{} `json:"samples"`
	Exhaustive         bool          `json:"exhaustive"`
}

func TestVerifReplay(t *testing.T) {
	_ = vLoad()
	defer vFlush()
	st := c16Stats{Rule: "every exported separator preset is called 60*|A|^Length times with the real random source: every returned value must lie in the documented alphabet with the documented length and entropy, and every documented value must occur (a value is non-trivial/distinct if it is a distinct returned string); constructor defaults and every class flag are compared through Alphabet()", Exhaustive: false}
	defer func() {
		if p := os.Getenv("VERIF_REPLAY_STATS"); p != "" {
			b, _ := json.Marshal(st)
			os.WriteFile(p, b, 0o644)
		}
	}()
	type pre struct {
		name   string
		f      SFFunction
		alpha  string
		length int
	}
	presets := []pre{
		{"SFNone", SFNone, "", 0},
		{"SFDigits1", SFDigits1, "0123456789", 1},
		{"SFDigits2", SFDigits2, "0123456789", 2},
		{"SFDigitsNoAmbiguous1", SFDigitsNoAmbiguous1, "2346789", 1},
		{"SFDigitsNoAmbiguous2", SFDigitsNoAmbiguous2, "2346789", 2},
		{"SFSymbols", SFSymbols, "!@.-_*", 1},
		{"SFDigitsSymbols", SFDigitsSymbols, "0123456789!@.-_*", 1},
	}
	for _, p := range presets {
		n := len(p.alpha)
		_ = newTape
		total := 1
		for i := 0; i < p.length; i++ {
			total *= n
		}
		seen := map[string]int{}
		wantEnt := 0.0
		if n > 0 {
			wantEnt = float64(p.length) * math.Log2(float64(n))
		}
		draws := 0
		if total > 0 {
			draws = 60 * total // probability of missing any value is below 1e-20
		} else {
			draws = 10
		}
		for k := 0; k < draws; k++ {
			var s string
			var e FloatE
			if pn := func() (r interface{}) { defer func() { r = recover() }(); s, e = p.f(); return nil }(); pn != nil {
				vReport(vHit{Obligation: "spg/bounded/presets", Input: map[string]interface{}{"preset": p.name}, Observed: vSprint("panic ", pn), Required: "a separator"})
				return
			}
			st.Evaluations++
			if len([]rune(s)) != p.length || strings.Trim(s, p.alpha) != "" || math.Abs(float64(e)-wantEnt) > 1e-4 {
				vReport(vHit{Obligation: "spg/bounded/presets", Input: map[string]interface{}{"preset": p.name}, Observed: vSprint("returned ", s, " with entropy ", e),
					Required: vSprint(p.length, " character(s) from ", p.alpha, " with entropy ", wantEnt)})
				return
			}
			seen[s]++
		}
		if p.length > 0 && len(seen) != total {
			vReport(vHit{Obligation: "spg/bounded/presets", Input: map[string]interface{}{"preset": p.name}, Observed: vSprint(len(seen), " distinct values in ", draws, " calls"),
				Required: vSprint("all ", total, " values of the documented alphabet occur")})
			return
		}
		st.DistinctNontrivial += len(seen)
		if len(st.Samples) < 8 {
			st.Samples = append(st.Samples, map[string]interface{}{"preset": p.name, "values": len(seen), "entropy": wantEnt})
		}
	}
	// constructor defaults, through the public API
	all := "ABCDEFGHIJKLMNOPQRSTUVWXYZabcdefghijklmnopqrstuvwxyz0123456789!@.-_*"
	var want []string
	for _, c := range strings.Split(all, "") {
		if !strings.Contains("0O1Il5S", c) {
			want = append(want, c)
		}
	}
	sort.Strings(want)
	if got := NewCharRecipe(12).Alphabet(); got != strings.Join(want, "") {
		vReport(vHit{Obligation: "spg/bounded/presets", Input: "NewCharRecipe(12).Alphabet()", Observed: got, Required: strings.Join(want, "")})
		return
	}
	st.Evaluations++
	for _, c := range []struct {
		f CTFlag
		s string
	}{{Uppers, "ABCDEFGHIJKLMNOPQRSTUVWXYZ"}, {Lowers, "abcdefghijklmnopqrstuvwxyz"}, {Digits, "0123456789"}, {Symbols, "!@.-_*"}, {Ambiguous, "0O1Il5S"},
		{Letters, "ABCDEFGHIJKLMNOPQRSTUVWXYZabcdefghijklmnopqrstuvwxyz"}, {All, all}} {
		cs := strings.Split(c.s, "")
		sort.Strings(cs)
		if got := (CharRecipe{Length: 1, Allow: c.f}).Alphabet(); got != strings.Join(cs, "") {
			vReport(vHit{Obligation: "spg/bounded/presets", Input: vSprint("CharRecipe{Allow: ", c.f, "}.Alphabet()"), Observed: got, Required: strings.Join(cs, "")})
			return
		}
		st.Evaluations++
	}
}
