package spg

import (
	"io"
	"math"
	"os"
	"strings"
	"testing"
)

func c08Quiet(f func()) {
	old, oldOut := os.Stderr, os.Stdout
	r, w, _ := os.Pipe()
	os.Stderr, os.Stdout = w, w
	done := make(chan bool)
	go func() { io.Copy(io.Discard, r); done <- true }()
	f()
	w.Close()
	os.Stderr, os.Stdout = old, oldOut
	<-done
}

// expected entropy from the statement of C08
func c08Want(list []string, length int, cs CapScheme, sepEnt float64) float64 {
	set := map[string]bool{}
	for _, w := range list {
		set[w] = true
	}
	n := 0
	allcap := true
	for c := range set {
		twin := false
		for w := range set {
			if w != c && strings.Title(w) == c {
				twin = true
			}
		}
		if !twin {
			n++
			if strings.Title(c) == c {
				allcap = false
			}
		}
	}
	e := float64(length) * math.Log2(float64(n))
	if allcap {
		switch cs {
		case CSRandom:
			e += float64(length)
		case CSOne:
			e += math.Log2(float64(length))
		}
	}
	return e + float64(length-1)*sepEnt
}

func TestVerifReplay(t *testing.T) {
	req := vLoad()
	defer vFlush()
	r := &vRng{s: uint64(req.Seed)*31337 + 7}
	pool := []string{"polish", "Polish", "apple", "bear", "cider", "dove", "4", "正確", "école", "École", "e-mail", "E-Mail", "a", "zebra", "yak", "ßeta", "ĸra", "ﬁsh", "7-up", "Ice-cream", "ice-Cream", "ǆungla"}
	schemes := []CapScheme{CSNone, CSFirst, CSAll, CSRandom, CSOne, "bogus"}
	rounds := 1500
	if req.Tier == "thorough" {
		rounds = 30000
	}
	calls := 0
	seps := []struct {
		name string
		f    SFFunction
		ent  float64
	}{
		{"nil", nil, 0}, {"SFDigits1", SFDigits1, math.Log2(10)}, {"SFNone", SFNone, 0},
		{"custom-const-entropy", func() (string, FloatE) { calls++; if calls%2 == 0 { return "", 1.5 }; return "x", 1.5 }, 1.5},
	}
	for i := 0; i < rounds; i++ {
		n := 1 + r.intn(6)
		list := make([]string, n)
		for j := range list {
			list[j] = pool[r.intn(len(pool))]
		}
		if i == 0 {
			list = []string{"polish", "Polish", "apple", "bear"}
		}
		length := 1 + r.intn(6)
		cs := schemes[r.intn(len(schemes))]
		sp := seps[r.intn(len(seps))]
		want := c08Want(list, length, cs, sp.ent)
		for rep := 0; rep < 8; rep++ {
			// permuted / repeated input, repeated construction (map order varies between constructions)
			l := append([]string{}, list...)
			if rep%2 == 1 {
				for k := len(l) - 1; k > 0; k-- {
					m := r.intn(k + 1)
					l[k], l[m] = l[m], l[k]
				}
				l = append(l, l[0])
			}
			var wl *WordList
			c08Quiet(func() { wl, _ = NewWordList(l) })
			rc := NewWLRecipe(length, wl)
			rc.Capitalize = cs
			rc.SeparatorFunc = sp.f
			var got, got2 float32
			c08Quiet(func() { got = rc.Entropy(); got2 = rc.Entropy() })
			if math.Abs(float64(got)-want) > 1e-3*(1+math.Abs(want)) || got != got2 {
				vReport(vHit{Input: map[string]interface{}{"list": l, "length": length, "capitalize": string(cs), "separator": sp.name},
					Observed: vSprint("Entropy() = ", got, " (second call ", got2, ")"), Required: vSprint(want, " = Length*log2(size) + capitalisation bits only if every kept word is capitalisable + (Length-1)*separator entropy")})
				return
			}
		}
	}
}
