package spg

import (
	"testing"
)

type c09Recipe struct {
	Name string
	Gen  func() (*Password, error)
	Det  bool // output is a deterministic function of the tape (no map-ordered alphabet involved)
	Fix  bool // the number of bytes consumed is a deterministic function of the tape (no requirement whose rejections depend on the map-ordered alphabet)
}

func c09Recipes() []c09Recipe {
	wl, _ := NewWordList([]string{"alpha", "beta", "gamma", "delta", "epsilon", "zeta", "eta"})
	mk := func(n int, cs CapScheme, sf SFFunction, sc string) func() (*Password, error) {
		return func() (*Password, error) {
			r := NewWLRecipe(n, wl)
			r.Capitalize = cs
			r.SeparatorFunc = sf
			r.SeparatorChar = sc
			return r.Generate()
		}
	}
	return []c09Recipe{
		{"chars len 6 require digits", func() (*Password, error) {
			return CharRecipe{Length: 6, Allow: Letters, Require: Digits}.Generate()
		}, false, false},
		{"chars len 8 letters and digits", func() (*Password, error) {
			return CharRecipe{Length: 8, Allow: Letters | Digits}.Generate()
		}, false, true},
		{"chars len 3 custom", func() (*Password, error) {
			return CharRecipe{Length: 3, AllowChars: "abcdefg", RequireSets: []string{"xy"}}.Generate()
		}, false, false},
		{"words 3 one-cap const sep", mk(3, CSOne, nil, "-"), true, true},
		{"words 4 random-cap", mk(4, CSRandom, nil, ""), true, true},
		{"words 3 digit separator", mk(3, CSNone, SFDigits1, ""), false, true},
		{"words 2 first-cap two-digit separator", mk(2, CSFirst, SFDigitsNoAmbiguous2, ""), false, true},
	}
}

func TestVerifReplay(t *testing.T) {
	req := vLoad()
	defer vFlush()
	r := &vRng{s: uint64(req.Seed)*7919 + 3}
	rounds := 6
	if req.Tier == "thorough" {
		rounds = 40
	}
	type inp struct {
		Recipe string `json:"recipe"`
		Tape   []byte `json:"tape_prefix"`
		Fault  string `json:"fault"`
		Read   int    `json:"at_read"`
	}
	for round := 0; round < rounds; round++ {
		data := make([]byte, 4096)
		for i := range data {
			data[i] = byte(r.next())
		}
		if round == 0 {
			for i := range data {
				data[i] = 0xff // forces rejections for non powers of two
			}
			copy(data[64:], make([]byte, 4000))
		}
		for _, rc := range c09Recipes() {
			base := newTape(data)
			var p0 *Password
			var e0 error
			if pn := vWithTape(base, func() { p0, e0 = rc.Gen() }); pn != nil || e0 != nil || p0 == nil {
				continue
			}
			reads := base.reads
			// requests must be 4-byte reads of the OS source only
			for k := 0; k < reads; k++ {
				// (a) hard failure at read k: no password may be returned
				tp := newTape(data)
				tp.failAt = k
				var p *Password
				var err error
				pn := vWithTape(tp, func() { p, err = rc.Gen() })
				if pn == nil && err == nil && p != nil && tp.reads > k { // the failing read was actually requested in this run
					vReport(vHit{Input: inp{rc.Name, data[:16], "error returned by the source", k}, Observed: "Generate returned password " + p.String() + " although read " + vSprint(k) + " of the random source failed",
						Required: "panic or error, no password (fail closed)"})
					return
				}
				// (b) short successful read at read k: same choices as with full reads
				ts := newTape(data)
				ts.shortAt = k
				var ps *Password
				pn = vWithTape(ts, func() { ps, err = rc.Gen() })
				if pn == nil && err == nil && ps != nil {
					if (rc.Fix && ts.pos != base.pos) || (rc.Det && ps.String() != p0.String()) {
						vReport(vHit{Input: inp{rc.Name, data[:16], "short read (no error)", k}, Observed: "consumed " + vSprint(ts.pos) + " bytes and returned " + ps.String(),
							Required: "same bytes consumed (" + vSprint(base.pos) + ") and same choices (" + p0.String() + ") as with full reads: unfilled buffer bytes must never be used"})
						return
					}
				}
			}
			// (c) byte-at-a-time source
			tc := newTape(data)
			tc.chunk = 1
			var pc *Password
			var err error
			pn := vWithTape(tc, func() { pc, err = rc.Gen() })
			if pn != nil || (rc.Fix && (err != nil || pc == nil || tc.pos != base.pos)) || (rc.Det && pc != nil && pc.String() != p0.String()) {
				vReport(vHit{Input: inp{rc.Name, data[:16], "source delivers one byte per read", -1}, Observed: vSprint("panic=", pn, " err=", err, " consumed=", tc.pos),
					Required: "same result as with full reads"})
				return
			}
		}
	}
}
