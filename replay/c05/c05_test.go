package spg

import (
	"strings"
	"testing"
)

func c05Words(ws []string) *WordList {
	return &WordList{words: ws} // harness-only construction: the list is exactly ws
}

func c05Check(words []string, length int, cs CapScheme, sepChar string, sf SFFunction, tape []byte) (bad bool, obs, req string) {
	wl := c05Words(words)
	r := NewWLRecipe(length, wl)
	r.Capitalize, r.SeparatorChar, r.SeparatorFunc = cs, sepChar, sf
	var seps []string
	if sf != nil {
		inner := sf
		r.SeparatorFunc = func() (string, FloatE) { s, e := inner(); seps = append(seps, s); return s, e }
	}
	var p *Password
	var err error
	pn := vWithTape(newTape(tape), func() { p, err = r.Generate() })
	if pn != nil {
		return true, vSprint("panic: ", pn), "a password"
	}
	if err != nil || p == nil {
		return true, vSprint("error: ", err), "a password (the recipe can be honoured)"
	}
	ts := p.Tokens()
	// expected separators per gap
	gapSep := func(g int) string {
		if sf == nil {
			return sepChar
		}
		if g < len(seps) {
			return seps[g]
		}
		return "?"
	}
	isWord := func(s string, capd bool) bool {
		for _, w := range words {
			if (!capd && s == w) || (capd && s == strings.Title(w)) {
				return true
			}
		}
		return false
	}
	pos, natoms, ncap := 0, 0, 0
	for a := 0; a < length; a++ {
		if pos >= len(ts) || ts[pos].Type() != AtomType {
			return true, vSprint("tokens ", ts), vSprint("atom number ", a, " at token ", pos, " (exactly ", length, " atoms, separators only between atoms)")
		}
		v := ts[pos].Value()
		plain, capd := isWord(v, false), isWord(v, true)
		ok := false
		switch cs {
		case CSFirst:
			ok = (a == 0 && capd) || (a > 0 && plain)
		case CSAll:
			ok = capd
		case CSOne, CSRandom:
			ok = plain || capd
			if capd && !plain {
				ncap++
			}
		default:
			ok = plain
		}
		if !ok {
			return true, vSprint("atom ", a, " = ", v, " in ", ts), vSprint("a word of the list ", words, ", title-cased exactly where the scheme ", cs, " selects")
		}
		natoms++
		pos++
		if a < length-1 {
			s := gapSep(a)
			if s != "" {
				if pos >= len(ts) || ts[pos].Type() != SeparatorType || ts[pos].Value() != s {
					return true, vSprint("tokens ", ts), vSprint("separator ", s, " after atom ", a)
				}
				pos++
			}
		}
	}
	if pos != len(ts) {
		return true, vSprint("tokens ", ts), vSprint("exactly ", length, " atoms with one separator between adjacent atoms and nothing else")
	}
	if cs == CSOne && ncap > 1 {
		return true, vSprint(ncap, " capitalised atoms in ", ts), "exactly one under the 'one' scheme"
	}
	var cat string
	var atoms, sepv []string
	for _, t := range ts {
		cat += t.Value()
		if t.Type() == AtomType {
			atoms = append(atoms, t.Value())
		} else if t.Type() == SeparatorType {
			sepv = append(sepv, t.Value())
		}
	}
	if p.String() != cat || strings.Join(ts.Atoms(), "\x00") != strings.Join(atoms, "\x00") || strings.Join(ts.Separators(), "\x00") != strings.Join(sepv, "\x00") ||
		len(ts.Atoms()) != len(atoms) || len(ts.Separators()) != len(sepv) {
		return true, vSprint("String()=", p.String(), " Atoms()=", ts.Atoms(), " Separators()=", ts.Separators()), vSprint("concatenation ", cat, ", atoms ", atoms, ", separators ", sepv)
	}
	return false, "", ""
}

func TestVerifReplay(t *testing.T) {
	req := vLoad()
	defer vFlush()
	r := &vRng{s: uint64(req.Seed)*2654435761 + 17}
	lists := [][]string{{"alpha", "beta", "gamma"}, {"e-mail", "o'neil", "two words", "ǆungla"}, {"正確", "馬", "x"}, {"a"}, {"", "b"}, {"Polish", "polish", "4"}, {"ab", "cd", "ef", "gh", "ij"}}
	schemes := []CapScheme{CSNone, CSFirst, CSAll, CSRandom, CSOne, "weird"}
	rounds := 4000
	if req.Tier == "thorough" {
		rounds = 80000
	}
	for i := 0; i < rounds; i++ {
		words := lists[r.intn(len(lists))]
		length := 1 + r.intn(6)
		if i%50 == 0 {
			length = []int{63, 64, 65, 66, 100, 130, 257}[r.intn(7)] // machine-word boundaries of any per-position bookkeeping
		}
		cs := schemes[r.intn(len(schemes))]
		tape := make([]byte, 512+16*length)
		for j := range tape {
			tape[j] = byte(r.next())
		}
		sepChar := []string{"", "-", "é", "--"}[r.intn(4)]
		var sf SFFunction
		name := "nil"
		switch r.intn(5) {
		case 0:
			sf, name = SFDigits1, "SFDigits1"
		case 1:
			k := 0
			pat := r.intn(8)
			sf, name = func() (string, FloatE) { k++; if (pat>>uint(k%3))&1 == 1 { return "", 0 }; return "+", 0 }, vSprint("sometimes-empty pattern ", pat)
		case 2:
			sf, name = SFNone, "SFNone"
		}
		if bad, obs, rq := c05Check(words, length, cs, sepChar, sf, tape); bad {
			vReport(vHit{Input: map[string]interface{}{"words": words, "length": length, "capitalize": string(cs), "separator_char": sepChar, "separator_func": name, "tape_prefix": tape[:24]}, Observed: obs, Required: rq})
			return
		}
	}
}
