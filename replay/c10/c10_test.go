package spg

import (
	"io"
	"os"
	"sort"
	"strings"
	"testing"
)

// kept set from the statement of C10: distinct words, minus those that are the title-cased form of another listed word
func c10Kept(list []string) []string {
	set := map[string]bool{}
	for _, w := range list {
		set[w] = true
	}
	var out []string
	for c := range set {
		twin := false
		for w := range set {
			if w != c && strings.Title(w) == c {
				twin = true
			}
		}
		if !twin {
			out = append(out, c)
		}
	}
	sort.Strings(out)
	return out
}

func c10Quiet(f func()) {
	old := os.Stderr
	oldOut := os.Stdout
	r, w, _ := os.Pipe()
	os.Stderr, os.Stdout = w, w
	done := make(chan bool)
	go func() { io.Copy(io.Discard, r); done <- true }()
	f()
	w.Close()
	os.Stderr, os.Stdout = old, oldOut
	<-done
}

func c10Check(list []string) (bad bool, obs, req string) {
	orig := append([]string{}, list...)
	var wl *WordList
	var err error
	var pn interface{}
	c10Quiet(func() {
		func() {
			defer func() { pn = recover() }()
			wl, err = NewWordList(list)
		}()
	})
	if pn != nil {
		return true, vSprint("panic: ", pn), "a word list or an error"
	}
	for i := range orig {
		if i >= len(list) || list[i] != orig[i] {
			return true, vSprint("caller's slice is now ", list), vSprint("caller's slice untouched: ", orig)
		}
	}
	if len(list) == 0 {
		if err == nil || wl != nil {
			return true, "no error for an empty list", "an error"
		}
		return false, "", ""
	}
	if err != nil || wl == nil {
		return true, vSprint("error ", err), "a word list"
	}
	got := append([]string{}, wl.words...)
	sort.Strings(got)
	want := c10Kept(orig)
	if strings.Join(got, "\x00") != strings.Join(want, "\x00") || int(wl.Size()) != len(want) {
		return true, vSprint("kept ", got, " size ", wl.Size()), vSprint("kept exactly ", want)
	}
	// the result must not alias the caller's memory
	if len(wl.words) > 0 && len(list) > 0 {
		save := wl.words[0]
		wl.words[0] = save + "#"
		for i := range list {
			if list[i] != orig[i] {
				wl.words[0] = save
				return true, "the word list shares memory with the caller's slice", "an independent copy"
			}
		}
		wl.words[0] = save
	}
	return false, "", ""
}

func TestVerifReplay(t *testing.T) {
	req := vLoad()
	defer vFlush()
	r := &vRng{s: uint64(req.Seed)*7477 + 9}
	pool := []string{"polish", "Polish", "apple", "Apple", "bear", "4", "正確", "école", "École", "ÉCOLE", "e-mail", "E-Mail", "E-mail", "mcdonald", "McDonald", "Mcdonald", "NASA", "nasa", "Nasa", "", "a", "A", "ǆ", "ǅ", "ß", "o'neil", "O'Neil", "two words", "Two Words"}
	rounds := 3000
	if req.Tier == "thorough" {
		rounds = 60000
	}
	try := func(list []string) bool {
		for rep := 0; rep < 6; rep++ { // several constructions: map iteration order varies
			l := append([]string{}, list...)
			if bad, obs, rq := c10Check(l); bad {
				vReport(vHit{Input: map[string]interface{}{"list": list}, Observed: obs, Required: rq})
				return true
			}
		}
		return false
	}
	if try([]string{}) || try([]string{"a"}) || try([]string{"polish", "Polish"}) || try([]string{"Polish", "polish", "Polish", "x"}) {
		return
	}
	for i := 0; i < rounds; i++ {
		n := 1 + r.intn(7)
		list := make([]string, n)
		for j := range list {
			list[j] = pool[r.intn(len(pool))]
		}
		if try(list) {
			return
		}
	}
}
