package spg

import (
	"sort"
	"strings"
	"testing"
)

// Exact uniformity on a complete cell of the random stream: every raw word ranges over
// [0,M) with M a common multiple of all bounds used (2, Length, list size, separator alphabet),
// so every residue is exactly equally likely and every raw word is accepted.
func c04Outcome(ts Tokens) string {
	var b strings.Builder
	for _, t := range ts {
		b.WriteString(vSprint(int(t.Type()), ":", t.Value(), "|"))
	}
	return b.String()
}

type c04Case struct {
	Words  []string
	Length int
	Cap    CapScheme
	SepN   int // 0: no separator function; k>0: separator drawn uniformly from k symbols by the function
}

// c04Norm: the list as C10 says it is kept: no duplicates, and no word that is the title-cased form of another listed word
func c04Norm(words []string) []string {
	seen := map[string]bool{}
	for _, w := range words {
		seen[w] = true
	}
	var out []string
	done := map[string]bool{}
	for _, w := range words {
		if done[w] {
			continue
		}
		done[w] = true
		twin := false
		for v := range seen {
			if v != w && strings.Title(v) == w {
				twin = true
			}
		}
		if !twin {
			out = append(out, w)
		}
	}
	return out
}

func c04Spec(c0 c04Case) map[string]int {
	c := c0
	c.Words = c04Norm(c0.Words)
	out := map[string]int{}
	n := len(c.Words)
	seps := "-_.:+"
	var rec func(a int, caps []bool, toks Tokens)
	gen := func(caps []bool) {
		rec = func(a int, caps []bool, toks Tokens) {
			if a == c.Length {
				out[c04Outcome(toks)]++
				return
			}
			for w := 0; w < n; w++ {
				v := c.Words[w]
				if caps[a] {
					v = strings.Title(v)
				}
				t2 := append(append(Tokens{}, toks...), Token{v, AtomType})
				if a < c.Length-1 && c.SepN > 0 {
					for s := 0; s < c.SepN; s++ {
						rec(a+1, caps, append(append(Tokens{}, t2...), Token{string(seps[s]), SeparatorType}))
					}
				} else {
					rec(a+1, caps, t2)
				}
			}
		}
		rec(0, caps, nil)
	}
	switch c.Cap {
	case CSOne:
		for p := 0; p < c.Length; p++ {
			caps := make([]bool, c.Length)
			caps[p] = true
			gen(caps)
		}
	case CSRandom:
		for m := 0; m < 1<<uint(c.Length); m++ {
			caps := make([]bool, c.Length)
			for i := range caps {
				caps[i] = m>>uint(i)&1 == 1
			}
			gen(caps)
		}
	case CSFirst:
		caps := make([]bool, c.Length)
		caps[0] = true
		gen(caps)
	case CSAll:
		caps := make([]bool, c.Length)
		for i := range caps {
			caps[i] = true
		}
		gen(caps)
	default:
		gen(make([]bool, c.Length))
	}
	return out
}

func c04Run(c c04Case, M uint32, maxDraws int) (impl map[string]int, tapes int, draws int, fail string) {
	seps := "-_.:+"
	wl, werr := NewWordList(c.Words) // one list for all streams (the kept words are Go-map ordered per construction)
	if werr != nil {
		return nil, 0, 0, vSprint("NewWordList: ", werr)
	}
	mk := func() *WLRecipe {
		r := NewWLRecipe(c.Length, wl)
		r.Capitalize = c.Cap
		if c.SepN > 0 {
			k := uint32(c.SepN)
			r.SeparatorFunc = func() (string, FloatE) { return string(seps[randomUint32n(k)]), 0 }
		}
		return r
	}
	// number of draws consumed (must not depend on the values drawn)
	probe := newTape(nil)
	var err error
	if pn := vWithTape(probe, func() { _, err = mk().Generate() }); pn != nil || err != nil {
		return nil, 0, 0, vSprint("probe failed: ", pn, err)
	}
	// Generate() also evaluates Entropy(), which calls the separator function once more
	D := probe.pos / 4
	if D > maxDraws {
		return nil, 0, D, ""
	}
	impl = map[string]int{}
	total := 1
	for i := 0; i < D; i++ {
		total *= int(M)
	}
	words := make([]uint32, D)
	for t := 0; t < total; t++ {
		x := t
		for i := range words {
			words[i] = uint32(x % int(M))
			x /= int(M)
		}
		tp := newTape(vWords(words...))
		var p *Password
		if pn := vWithTape(tp, func() { p, err = mk().Generate() }); pn != nil || err != nil || p == nil {
			return nil, 0, D, vSprint("generation failed on raw words ", words, ": ", pn, err)
		}
		if tp.pos != 4*D {
			return nil, 0, D, vSprint("raw words ", words, " consumed ", tp.pos/4, " draws instead of ", D, " (all are accepted values)")
		}
		impl[c04Outcome(p.Tokens())]++
	}
	return impl, total, D, ""
}

func TestVerifReplay(t *testing.T) {
	req := vLoad()
	defer vFlush()
	cases := []c04Case{
		{[]string{"ab", "cd", "ef"}, 2, CSNone, 0},
		{[]string{"ab", "cd", "ef"}, 2, CSOne, 0},
		{[]string{"ab", "cd", "ef"}, 2, CSRandom, 0},
		{[]string{"ab", "cd", "ef"}, 3, CSOne, 0},
		{[]string{"ab", "cd", "ef"}, 2, CSNone, 2},
		{[]string{"ab", "cd"}, 3, CSRandom, 0},
		{[]string{"ab", "cd", "ef", "gh", "ij"}, 2, CSFirst, 0},
		{[]string{"ab", "cd"}, 3, CSOne, 3},
		{[]string{"polish", "Polish", "two"}, 2, CSAll, 0}, // the capitalised twin is not a second way to get "Polish"
		{[]string{"Polish", "two", "polish", "two"}, 2, CSNone, 0},
	}
	if req.Tier == "thorough" {
		cases = append(cases, c04Case{[]string{"ab", "cd", "ef"}, 3, CSRandom, 0}, c04Case{[]string{"a", "b", "c", "d", "e", "f", "g"}, 2, CSOne, 0})
	}
	for _, c := range cases {
		M := uint32(2)
		for _, k := range []int{len(c04Norm(c.Words)), c.Length, c.SepN, 2} {
			if k > 1 {
				// lcm
				a, b := int(M), k
				for b != 0 {
					a, b = b, a%b
				}
				M = M / uint32(a) * uint32(k)
			}
		}
		impl, total, D, fail := c04Run(c, M, 7)
		in := map[string]interface{}{"words": c.Words, "length": c.Length, "capitalize": string(c.Cap), "separator_symbols": c.SepN, "raw_word_range": M, "draws": D}
		if fail != "" {
			vReport(vHit{Input: in, Observed: fail, Required: "a password for every stream of accepted raw words, consuming the same number of draws"})
			return
		}
		if impl == nil {
			continue
		}
		spec := c04Spec(c)
		specTotal := 0
		for _, n := range spec {
			specTotal += n
		}
		keys := map[string]bool{}
		for k := range spec {
			keys[k] = true
		}
		for k := range impl {
			keys[k] = true
		}
		var ks []string
		for k := range keys {
			ks = append(ks, k)
		}
		sort.Strings(ks)
		for _, k := range ks {
			if impl[k]*specTotal != spec[k]*total {
				vReport(vHit{Input: in, Observed: vSprint("outcome ", k, " produced by ", impl[k], " of ", total, " equally likely streams"),
					Required: vSprint("exactly ", spec[k], "/", specTotal, " of them (independent uniform word, capitalisation and separator choices)")})
				return
			}
		}
	}
}
