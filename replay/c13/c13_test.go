package spg

import (
	"math"
	"strings"
	"testing"
)

// C13 replay: Generate of both kinds on zero-valued, partially initialised and unsatisfiable
// recipes (error, no panic, no password), refusal exactly on the stated conditions with the exact
// single-attempt success probability computed by enumeration, the all-attempts-fail stream.

func c13Spec(r CharRecipe) (alpha []string, req [][]string) {
	x := map[string]bool{}
	for _, c := range strings.Split(r.ExcludeChars, "") {
		x[c] = true
	}
	seen := map[string]bool{}
	add := func(s string) {
		for _, c := range strings.Split(s, "") {
			if c != "" && !x[c] && !seen[c] {
				seen[c] = true
				alpha = append(alpha, c)
			}
		}
	}
	add(r.AllowChars)
	for _, s := range r.RequireSets {
		add(s)
		var m []string
		for _, c := range strings.Split(s, "") {
			if c != "" && !x[c] {
				m = append(m, c)
			}
		}
		if len(m) > 0 {
			req = append(req, m)
		}
	}
	return
}

func c13P(alpha []string, req [][]string, L int) float64 {
	if len(alpha) == 0 {
		return 0
	}
	idx := make([]int, L)
	valid, total := 0.0, 0.0
	for {
		total++
		ok := true
		for _, rs := range req {
			hit := false
			for _, i := range idx {
				for _, c := range rs {
					if alpha[i] == c {
						hit = true
					}
				}
			}
			if !hit {
				ok = false
				break
			}
		}
		if ok {
			valid++
		}
		k := 0
		for k < L {
			idx[k]++
			if idx[k] < len(alpha) {
				break
			}
			idx[k] = 0
			k++
		}
		if k == L {
			return valid / total
		}
	}
}

func TestVerifReplay(t *testing.T) {
	req := vLoad()
	defer vFlush()
	rng := &vRng{s: uint64(req.Seed)*2654435761 + 99}
	// --- wordlist recipes that cannot be honoured
	empty := &WordList{}
	three, _ := NewWordList([]string{"ab", "cd", "ef"})
	wls := []struct {
		name string
		r    WLRecipe
		bad  bool
	}{
		{"zero value", WLRecipe{}, true},
		{"no list, length 3", WLRecipe{Length: 3}, true},
		{"no list, separator function", WLRecipe{Length: 2, SeparatorFunc: SFDigits1, Capitalize: CSRandom}, true},
		{"empty list", WLRecipe{Length: 3, list: empty}, true},
		{"length 0", WLRecipe{Length: 0, list: three}, true},
		{"length -1", WLRecipe{Length: -1, list: three, Capitalize: CSOne}, true},
		{"length -5 random caps", WLRecipe{Length: -5, list: three, Capitalize: CSRandom, SeparatorFunc: SFSymbols}, true},
		{"ordinary", WLRecipe{Length: 3, list: three, Capitalize: CSOne, SeparatorChar: "-"}, false},
		{"ordinary, length 1", WLRecipe{Length: 1, list: three, Capitalize: CSRandom, SeparatorFunc: SFDigits2}, false},
	}
	if _, err := NewWordList(nil); err == nil {
		vReport(vHit{Input: "NewWordList(nil)", Observed: "no error", Required: "an empty word list is refused"})
		return
	}
	for _, c := range wls {
		var p *Password
		var err error
		var pn interface{}
		func() {
			defer func() { pn = recover() }()
			p, err = c.r.Generate()
		}()
		in := map[string]interface{}{"wordlist_recipe": c.name, "length": c.r.Length}
		switch {
		case pn != nil:
			vReport(vHit{Input: in, Observed: vSprint("panic: ", pn), Required: "an error, never a panic"})
			return
		case c.bad && (err == nil || p != nil):
			vReport(vHit{Input: in, Observed: vSprint("password=", p != nil, " err=", err), Required: "an error and no password: the recipe cannot be honoured"})
			return
		case !c.bad && (err != nil || p == nil):
			vReport(vHit{Input: in, Observed: vSprint("err=", err), Required: "a password: the recipe can be honoured"})
			return
		}
		func() {
			defer func() { pn = recover() }()
			c.r.Size()
		}()
		if pn != nil {
			vReport(vHit{Input: in, Observed: vSprint("Size() panic: ", pn), Required: "no panic"})
			return
		}
	}
	// --- character recipes
	pool := []string{"", "a", "ab", "abc", "abcdefgh", "12", "1", "xyz", "é", "b1", "abcdefghijklmnopqrstuvwx"}
	var recipes []CharRecipe
	recipes = append(recipes, CharRecipe{}, CharRecipe{Length: 5}, CharRecipe{Length: -3, Allow: All}, CharRecipe{Length: 0, AllowChars: "abc"},
		CharRecipe{Length: 4, Allow: Digits, Exclude: Digits}, CharRecipe{Length: 3, AllowChars: "ab", ExcludeChars: "ba"},
		CharRecipe{Length: 1, AllowChars: "ab", RequireSets: []string{"1", "2"}}, // cannot be met at all
		CharRecipe{Length: 6, AllowChars: "abcdefghijklmnopqrstuvwx", RequireSets: []string{"1", "2", "3", "4", "5"}},
		CharRecipe{Length: 5, AllowChars: "abcdef", RequireSets: []string{"35", "57"}}, // overlapping required sets, ordinary recipe
		CharRecipe{Length: 6, AllowChars: "abcd", RequireSets: []string{"12", "23", "13"}},
		CharRecipe{Length: 8, Allow: Letters, Require: Digits, RequireSets: []string{"357"}}, // the recipe named in the property
		CharRecipe{Length: 2, AllowChars: "a", RequireSets: []string{"b", ""}})
	n := 150
	if req.Tier == "thorough" {
		n = 3000
	}
	for i := 0; i < n; i++ {
		c := CharRecipe{Length: rng.intn(7) - 1, AllowChars: pool[rng.intn(len(pool))]}
		for k := rng.intn(4); k > 0; k-- {
			c.RequireSets = append(c.RequireSets, pool[rng.intn(len(pool))])
		}
		if rng.intn(4) == 0 {
			c.ExcludeChars = pool[rng.intn(len(pool))]
		}
		recipes = append(recipes, c)
	}
	for _, r := range recipes {
		in := map[string]interface{}{"recipe": r, "MaxTrials": MaxTrials, "MaxFailRate": MaxFailRate}
		var p *Password
		var err error
		var pn interface{}
		// a pseudo-random stream, so that the draws can be counted: a refusal draws nothing, giving up after all attempts does
		stream := make([]byte, 1<<15)
		for j := range stream {
			stream[j] = byte(rng.next() >> 16)
		}
		tpr := newTape(stream)
		pn = vWithTape(tpr, func() { p, err = r.Generate() })
		refused := err != nil && tpr.pos == 0
		if pn != nil {
			vReport(vHit{Input: in, Observed: vSprint("panic: ", pn), Required: "an error, never a panic"})
			return
		}
		if (p == nil) != (err != nil) {
			vReport(vHit{Input: in, Observed: vSprint("password=", p != nil, " err=", err), Required: "either a password or an error"})
			return
		}
		if r.Allow|r.Require|r.Exclude != 0 {
			// class flags (the specification below knows custom strings only): non-positive length and
			// "everything allowed is excluded" must be refused, the recipe named in the property must be accepted
			if r.Length < 1 || (r.Allow != 0 && r.Allow&^r.Exclude == 0 && r.Require == 0) {
				if err == nil {
					vReport(vHit{Input: in, Observed: "password " + p.String(), Required: "an error: non-positive length or empty alphabet"})
					return
				}
				continue
			}
			if r.Require == Digits && len(r.RequireSets) == 1 && err != nil {
				vReport(vHit{Input: in, Observed: vSprint("refused: ", err), Required: "an ordinary recipe (single-attempt success chance far above the threshold) is never refused"})
				return
			}
			continue
		}
		alpha, reqs := c13Spec(r)
		if r.Length < 1 || len(alpha) == 0 {
			if err == nil {
				vReport(vHit{Input: in, Observed: "password " + p.String(), Required: "an error: non-positive length or empty alphabet"})
				return
			}
			continue
		}
		if pow(len(alpha), r.Length) > 3e6 {
			continue
		}
		sp := c13P(alpha, reqs, r.Length)
		in["exact_success_probability"] = sp
		var got float32
		func() {
			defer func() { pn = recover() }()
			got = r.SuccessProbability()
		}()
		if pn != nil || math.IsNaN(float64(got)) || math.Abs(float64(got)-sp) > 1e-3*math.Max(sp, 1e-3) {
			vReport(vHit{Input: in, Observed: vSprint("SuccessProbability() = ", got, " panic=", pn), Required: vSprint("the exact fraction of candidates that satisfy the requirements: ", sp)})
			return
		}
		failP := math.Pow(1-sp, float64(MaxTrials))
		switch {
		case failP < MaxFailRate/10 && refused:
			vReport(vHit{Input: in, Observed: vSprint("refused: ", err), Required: vSprint("not refused: all ", MaxTrials, " attempts fail with probability ", failP, " <= ", MaxFailRate)})
			return
		case failP > MaxFailRate*10 && err == nil:
			vReport(vHit{Input: in, Observed: "password " + p.String(), Required: vSprint("refused: all ", MaxTrials, " attempts fail with probability ", failP, " > ", MaxFailRate)})
			return
		}
	}
	// --- the refusal decision follows the CURRENT number of permitted attempts
	for _, c := range []struct {
		trials int
		r      CharRecipe
		refuse bool
	}{
		{1, CharRecipe{Length: 8, AllowChars: "b", RequireSets: []string{"a"}}, true},                      // one attempt fails with probability 1/256 > 1e-9
		{2000, CharRecipe{Length: 4, AllowChars: "abcdefghijklmnopqrstuvwxyz", RequireSets: []string{"1"}}, false}, // p ~ 0.14: 0.86^2000 is far below 1e-9
		{200, CharRecipe{Length: 4, AllowChars: "abcdefghijklmnopqrstuvwxyz", RequireSets: []string{"1"}}, false},
	} {
		old := MaxTrials
		MaxTrials = c.trials
		var p *Password
		var err error
		stream := make([]byte, 1<<16)
		for j := range stream {
			stream[j] = byte(rng.next() >> 16)
		}
		tpr := newTape(stream)
		vWithTape(tpr, func() { p, err = c.r.Generate() })
		refused := err != nil && tpr.pos == 0
		MaxTrials = old
		in := map[string]interface{}{"recipe": c.r, "MaxTrials": c.trials, "MaxFailRate": MaxFailRate}
		if c.refuse && !refused {
			vReport(vHit{Input: in, Observed: vSprint("password=", p != nil, " err=", err), Required: vSprint("refused: with ", c.trials, " permitted attempt(s) all fail with probability above the limit")})
			return
		}
		if !c.refuse && refused {
			vReport(vHit{Input: in, Observed: vSprint("refused: ", err), Required: vSprint("not refused: with ", c.trials, " permitted attempts the failure chance is far below the limit")})
			return
		}
	}
	// --- the stream on which every attempt fails, and the attempt limit
	for _, mt := range []int{200, 3, 1} {
		old := MaxTrials
		oldF := MaxFailRate
		MaxTrials = mt
		MaxFailRate = 1.0 // accept any recipe: the refusal must then come from the attempt limit
		r := CharRecipe{Length: 3, AllowChars: "ab", RequireSets: []string{"a", "b"}}
		tp := newTape(make([]byte, 1<<16)) // all-zero stream: every candidate repeats one character
		var p *Password
		var err error
		pn := vWithTape(tp, func() { p, err = r.Generate() })
		MaxTrials, MaxFailRate = old, oldF
		in := map[string]interface{}{"recipe": r, "stream": "all zero", "MaxTrials": mt, "MaxFailRate": 1.0}
		if pn != nil || p != nil || err == nil {
			vReport(vHit{Input: in, Observed: vSprint("panic=", pn, " password=", p != nil, " err=", err), Required: "an error after the permitted attempts, no password, no panic"})
			return
		}
		if tp.pos/4 > mt*r.Length {
			vReport(vHit{Input: in, Observed: vSprint(tp.pos/4, " draws = more than ", mt, " attempts of ", r.Length, " characters"), Required: "never more than the permitted number of attempts"})
			return
		}
		if tp.pos/4 < mt*r.Length {
			vReport(vHit{Input: in, Observed: vSprint(tp.pos/4, " draws = fewer than ", mt, " attempts"), Required: "all permitted attempts are made before giving up"})
			return
		}
	}
}

func pow(a, b int) float64 { return math.Pow(float64(a), float64(b)) }
