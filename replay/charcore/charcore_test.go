package spg

import (
	"encoding/json"
	"io"
	"log"
	"math"
	"math/big"
	"os"
	"sort"
	"strings"
	"testing"
)

// Bounded stand-in for the parts of the character-recipe code that the VC engine takes on trust
// (see DESIGN.md): buildCharacterList's alphabet / requirement semantics, the counting core n(),
// Entropy() and SuccessProbability(). Real code against brute force / exact arithmetic.

type ccRecipe struct {
	Length       int
	Allow        CTFlag
	Require      CTFlag
	Exclude      CTFlag
	AllowChars   string
	RequireSets  []string
	ExcludeChars string
}

func (c ccRecipe) mk() CharRecipe {
	return CharRecipe{Length: c.Length, Allow: c.Allow, Require: c.Require, Exclude: c.Exclude, AllowChars: c.AllowChars, RequireSets: c.RequireSets, ExcludeChars: c.ExcludeChars}
}

var ccClasses = map[CTFlag]string{Uppers: "ABCDEFGHIJKLMNOPQRSTUVWXYZ", Lowers: "abcdefghijklmnopqrstuvwxyz", Digits: "0123456789", Symbols: "!@.-_*", Ambiguous: "0O1Il5S"}

func ccSet(s string) map[string]bool {
	m := map[string]bool{}
	for _, c := range strings.Split(s, "") {
		m[c] = true
	}
	return m
}

// specification, from the statements of C03 / C07
func ccSpec(c ccRecipe) (alphabet []string, req []map[string]bool) {
	x := ccSet(c.ExcludeChars)
	al := ccSet(c.AllowChars)
	var srcs []map[string]bool
	for _, s := range c.RequireSets {
		if s != "" {
			srcs = append(srcs, ccSet(s))
		}
	}
	for _, f := range []CTFlag{Uppers, Lowers, Digits, Symbols, Ambiguous} {
		if c.Exclude&f != 0 {
			for k := range ccSet(ccClasses[f]) {
				x[k] = true
			}
		}
		if c.Allow&f != 0 {
			for k := range ccSet(ccClasses[f]) {
				al[k] = true
			}
		}
		if c.Require&f != 0 {
			srcs = append(srcs, ccSet(ccClasses[f]))
		}
	}
	a := map[string]bool{}
	for k := range al {
		if !x[k] {
			a[k] = true
		}
	}
	for _, s := range srcs {
		m := map[string]bool{}
		for k := range s {
			if !x[k] {
				m[k] = true
				a[k] = true
			}
		}
		if len(m) > 0 { // a required set with no non-excluded member is waived
			req = append(req, m)
		}
	}
	for k := range a {
		alphabet = append(alphabet, k)
	}
	sort.Strings(alphabet)
	return
}

func ccValid(pw []string, req []map[string]bool) bool {
	for _, m := range req {
		hit := false
		for _, ch := range pw {
			if m[ch] {
				hit = true
			}
		}
		if !hit {
			return false
		}
	}
	return true
}

// exact count by inclusion-exclusion over the required sets (arbitrary precision)
func ccCount(alphabet []string, req []map[string]bool, L int) *big.Int {
	total := new(big.Int)
	for mask := 0; mask < 1<<uint(len(req)); mask++ {
		avoid := map[string]bool{}
		bits := 0
		for i, m := range req {
			if mask>>uint(i)&1 == 1 {
				bits++
				for k := range m {
					avoid[k] = true
				}
			}
		}
		n := 0
		for _, ch := range alphabet {
			if !avoid[ch] {
				n++
			}
		}
		t := new(big.Int).Exp(big.NewInt(int64(n)), big.NewInt(int64(L)), nil)
		if bits%2 == 1 {
			total.Sub(total, t)
		} else {
			total.Add(total, t)
		}
	}
	return total
}

func ccBrute(alphabet []string, req []map[string]bool, L int) int64 {
	var cnt int64
	cur := make([]string, L)
	var rec func(p int)
	rec = func(p int) {
		if p == L {
			if ccValid(cur, req) {
				cnt++
			}
			return
		}
		for _, ch := range alphabet {
			cur[p] = ch
			rec(p + 1)
		}
	}
	rec(0)
	return cnt
}

func ccLog2(n *big.Int) float64 {
	if n.Sign() <= 0 {
		return math.Inf(-1)
	}
	f := new(big.Float).SetInt(n)
	mant := new(big.Float)
	exp := f.MantExp(mant)
	m, _ := mant.Float64()
	return math.Log2(m) + float64(exp)
}

type ccStats struct {
	Evaluations        int           `json:"evaluations"`
	DistinctNontrivial int           `json:"distinct_nontrivial"`
	Rule               string        `json:"rule"`
	Samples            []interface{} `json:"samples"`
	Exhaustive         bool          `json:"exhaustive"`
	Bounds             string        `json:"bounds"`
}

func ccQuiet(f func()) {
	old, oldErr := os.Stdout, os.Stderr
	devnull, _ := os.OpenFile(os.DevNull, os.O_WRONLY, 0)
	os.Stdout, os.Stderr = devnull, devnull
	log.SetOutput(io.Discard)
	defer func() { os.Stdout, os.Stderr = old, oldErr; log.SetOutput(oldErr); devnull.Close() }()
	f()
}

// ccCheck compares the real code with the specification for one recipe.
func ccCheck(c ccRecipe, brute bool) (bad bool, obs, req string, nontrivial bool) {
	alphabet, reqs := ccSpec(c)
	overlap := false
	for i := range reqs {
		for j := i + 1; j < len(reqs); j++ {
			for k := range reqs[i] {
				if reqs[j][k] {
					overlap = true
				}
			}
		}
	}
	nontrivial = len(reqs) >= 2 && overlap
	r := c.mk()
	var cl []string
	var ent1, ent2, sp float32
	var nReal *big.Int
	var pn interface{}
	ccQuiet(func() {
		func() {
			defer func() { pn = recover() }()
			cl = append([]string{}, r.buildCharacterList()...)
			nReal = r.n()
			// first on recipes whose computed fields were never built (what a user's first call sees),
			// then on the one buildCharacterList has already been applied to
			fresh1, fresh2 := c.mk(), c.mk()
			ent1 = fresh1.Entropy()
			ent2 = r.Entropy()
			sp = fresh2.SuccessProbability()
			if sp2 := r.SuccessProbability(); sp2 != sp && !(sp2 != sp2 && sp != sp) {
				panic(vSprint("SuccessProbability() = ", sp, " on a fresh recipe, ", sp2, " after buildCharacterList"))
			}
		}()
	})
	if pn != nil {
		return true, vSprint("panic: ", pn), "no panic", nontrivial
	}
	got := append([]string{}, cl...)
	sort.Strings(got)
	if strings.Join(got, "\x00") != strings.Join(alphabet, "\x00") {
		return true, vSprint("alphabet ", got), vSprint("alphabet ", alphabet, " (allowed or required, not excluded; no repeats)"), nontrivial
	}
	for _, ch := range cl {
		if len([]rune(ch)) != 1 {
			return true, vSprint("alphabet element ", ch), "single characters", nontrivial
		}
	}
	// requirement semantics: the filter accepts exactly the strings that meet the requirements
	if c.Length >= 1 && len(alphabet) > 0 {
		probes := [][]string{}
		for i := 0; i < 6; i++ {
			p := make([]string, c.Length)
			for j := range p {
				p[j] = alphabet[(i*7+j*3+i*j)%len(alphabet)]
			}
			probes = append(probes, p)
		}
		for _, p := range probes {
			if requireFilter(strings.Join(p, ""), r.requiredSets) != ccValid(p, reqs) {
				return true, vSprint("filter verdict ", !ccValid(p, reqs), " for candidate ", strings.Join(p, "")), vSprint(ccValid(p, reqs), ": a character from every required set that still has a non-excluded member"), nontrivial
			}
		}
	}
	if (r.requiredSets.size() == 0) != (len(reqs) == 0) {
		return true, vSprint("requiredSets.size() = ", r.requiredSets.size()), vSprint(len(reqs), " effective required sets"), nontrivial
	}
	if c.Length < 1 {
		return false, "", "", nontrivial
	}
	want := ccCount(alphabet, reqs, c.Length)
	if brute {
		if b := ccBrute(alphabet, reqs, c.Length); want.Cmp(big.NewInt(b)) != 0 {
			return true, vSprint("oracle disagreement ", want, " vs brute force ", b), "harness self-check", nontrivial
		}
	}
	if len(reqs) > 0 || true {
		if nReal.Cmp(want) != 0 && len(reqs) > 0 {
			return true, vSprint("n() = ", nReal), vSprint("exact count ", want), nontrivial
		}
	}
	wl := ccLog2(want)
	e := float64(ent1)
	switch {
	case ent1 != ent2 && !(math.IsNaN(float64(ent1)) && math.IsNaN(float64(ent2))):
		return true, vSprint("Entropy() = ", ent1, " then ", ent2), "the same value on every call", nontrivial
	case math.IsNaN(e):
		return true, "Entropy() = NaN", vSprint("log2(", want, ") = ", wl), nontrivial
	case math.IsInf(wl, -1):
		if !math.IsInf(e, -1) {
			return true, vSprint("Entropy() = ", ent1), "-Inf (no string satisfies the recipe)", nontrivial
		}
	case math.Abs(e-wl) > 1e-5*math.Max(1, math.Abs(wl)):
		return true, vSprint("Entropy() = ", ent1), vSprint("log2(", want, ") = ", wl), nontrivial
	}
	// success probability = exact fraction of unconstrained candidates that meet the requirements
	if len(alphabet) > 0 {
		all := new(big.Int).Exp(big.NewInt(int64(len(alphabet))), big.NewInt(int64(c.Length)), nil)
		frac, _ := new(big.Rat).SetFrac(want, all).Float64()
		if math.IsNaN(float64(sp)) || math.Abs(float64(sp)-frac) > 2e-4*math.Max(frac, 1e-3)+1e-7 {
			return true, vSprint("SuccessProbability() = ", sp), vSprint("exact fraction ", want, "/", all, " = ", frac), nontrivial
		}
	}
	return false, "", "", nontrivial
}

func TestVerifReplay(t *testing.T) {
	req := vLoad()
	defer vFlush()
	st := ccStats{Rule: "real buildCharacterList/requireFilter/n()/Entropy()/SuccessProbability() against the specification (alphabet = allowed or required minus excluded; count by brute-force enumeration and by arbitrary-precision inclusion-exclusion); a recipe is non-trivial if it has at least two effective required sets of which two overlap"}
	defer func() {
		if p := os.Getenv("VERIF_REPLAY_STATS"); p != "" {
			b, _ := json.Marshal(st)
			os.WriteFile(p, b, 0o644)
		}
	}()
	seenNT := map[string]bool{}
	run := func(c ccRecipe, brute bool) bool {
		bad, obs, rq, nt := ccCheck(c, brute)
		st.Evaluations++
		if nt {
			k, _ := json.Marshal(c)
			if !seenNT[string(k)] {
				seenNT[string(k)] = true
				st.DistinctNontrivial++
				if len(st.Samples) < 5 {
					st.Samples = append(st.Samples, c)
				}
			}
		}
		if bad {
			vReport(vHit{Obligation: "spg/bounded/charcore", Input: c, Observed: obs, Required: rq})
			return true
		}
		return false
	}
	// 1. exhaustive small domain
	U := []string{"a", "b", "é", "1"}
	subsets := []string{}
	for m := 0; m < 1<<uint(len(U)); m++ {
		s := ""
		for i, u := range U {
			if m>>uint(i)&1 == 1 {
				s += u
			}
		}
		subsets = append(subsets, s)
	}
	maxL := 3
	exStep := 3 // quick: every third exclusion set; thorough: all
	if req.Tier == "thorough" {
		maxL, exStep = 4, 1
	}
	for ai, al := range subsets {
		for xi := 0; xi < len(subsets); xi += exStep {
			ex := subsets[(xi+ai)%len(subsets)]
			for i := 0; i < len(subsets); i++ {
				for j := i; j < len(subsets); j += 1 {
					var rs []string
					if i > 0 {
						rs = append(rs, subsets[i])
					}
					if j > 0 {
						rs = append(rs, subsets[j])
					}
					for L := 1; L <= maxL; L++ {
						if run(ccRecipe{Length: L, AllowChars: al, ExcludeChars: ex, RequireSets: rs}, true) {
							return
						}
					}
				}
			}
		}
	}
	st.Bounds = vSprint("exhaustive: universe ", U, ", every allowed subset, exclusion subsets (step ", exStep, "), every pair of required subsets (incl. empty/equal/nested/overlapping), lengths 1..", maxL)
	// 2. class flags, custom sets overlapping the classes, long lengths (counts beyond float64), against the exact oracle
	r := &vRng{s: uint64(req.Seed)*69069 + 1}
	n := 1500
	if req.Tier == "thorough" {
		n = 20000
	}
	pool := []string{"357", "abc", "ABC", "!é", "0O", "xyzXYZ", "", "5S", "9", "aé日", "ab", "c", "cd", "ab cd", "[ab]"}
	// call histories: recipes whose fields print or concatenate alike must not influence each other
	for _, seq := range [][][]string{{{"ab", "c"}, {"abc"}}, {{"ab", "cd"}, {"ab cd"}}, {{"a", "b"}, {"a b"}, {"ab"}}, {{"[ab]"}, {"ab"}}} {
		for _, rs := range seq {
			if run(ccRecipe{Length: 3, AllowChars: "xyz", RequireSets: rs}, true) {
				return
			}
		}
	}
	// length sweep: every length 1..100 for a few recipe shapes, so that counts near every power of two up to
	// 2^600 occur (machine-word and float64 boundaries of the count show up as a single wrong length)
	for _, base := range []ccRecipe{
		{Require: Digits},
		{AllowChars: "c", RequireSets: []string{"ab"}},
		{Allow: Lowers, Require: Digits, RequireSets: []string{"357"}},
		{Allow: Letters | Digits, Require: Symbols},
		{AllowChars: "ab", RequireSets: []string{"ab", "b"}},
	} {
		for L := 1; L <= 100; L++ {
			c := base
			c.Length = L
			if run(c, false) {
				return
			}
		}
	}
	lens := []int{1, 2, 3, 5, 8, 20, 63, 64, 172, 400, 1000, 4000}
	for i := 0; i < n; i++ {
		c := ccRecipe{Length: lens[r.intn(len(lens))], Allow: CTFlag(r.intn(32)), Require: CTFlag(r.intn(32)) & CTFlag(r.intn(32)), Exclude: CTFlag(r.intn(32)) & CTFlag(r.intn(32))}
		if r.intn(2) == 0 {
			c.AllowChars = pool[r.intn(len(pool))]
		}
		if r.intn(3) == 0 {
			c.ExcludeChars = pool[r.intn(len(pool))]
		}
		for k := r.intn(4); k > 0; k-- {
			c.RequireSets = append(c.RequireSets, pool[r.intn(len(pool))])
		}
		if run(c, false) {
			return
		}
	}
	st.Exhaustive = false
}
