package spg

import (
	"strings"
	"testing"
	"unicode/utf8"
)

type c11Tok struct {
	Value string `json:"value"`
	Type  int    `json:"type"`
}

func c11Check(ts Tokens) (bad bool, obs, req string) {
	if len(ts) == 0 {
		return false, "", ""
	}
	chars := func(s string) int { return utf8.RuneCountInString(s) }
	encodable := true
	allAtoms, allOne, alternating := true, true, len(ts)%2 == 1 && len(ts) >= 3
	for i, t := range ts {
		if chars(t.value) > 255 {
			encodable = false
		}
		if t.tType != AtomType {
			allAtoms = false
		}
		if chars(t.value) != 1 {
			allOne = false
		}
		want := AtomType
		if i%2 == 1 {
			want = SeparatorType
		}
		if t.tType != want {
			alternating = false
		}
	}
	var ix Indices
	var err error
	pn := func() (r interface{}) {
		defer func() { r = recover() }()
		ix, err = ts.MakeIndices()
		return nil
	}()
	if pn != nil {
		return true, vSprint("MakeIndices panicked: ", pn), "an index or an error"
	}
	charKind := allAtoms && allOne
	if err != nil {
		if encodable || charKind {
			return true, "MakeIndices error: " + err.Error(), "an index (every token has at most 255 characters)"
		}
		return false, "", ""
	}
	if !encodable && !charKind {
		return true, vSprint("index ", []byte(ix), " for a token of more than 255 characters"), "an error rather than a lossy index"
	}
	// documented size
	wantLen := 2*len(ts) + 1
	switch {
	case charKind:
		wantLen = 1
	case allAtoms || alternating:
		wantLen = len(ts) + 1
	}
	if len(ix) != wantLen {
		return true, vSprint("index of ", len(ix), " bytes: ", []byte(ix)), vSprint("documented size ", wantLen, " bytes")
	}
	// round trip (premise: tokens of 1..255 characters, valid UTF-8)
	premise := true
	for _, t := range ts {
		if chars(t.value) < 1 || chars(t.value) > 255 || !utf8.ValidString(t.value) {
			premise = false
		}
	}
	if !premise {
		return false, "", ""
	}
	p := Password{tokens: ts, Entropy: 12.5}
	var back Password
	pn = func() (r interface{}) {
		defer func() { r = recover() }()
		back, err = Tokenize(p.String(), ix, p.Entropy)
		return nil
	}()
	if pn != nil || err != nil {
		return true, vSprint("Tokenize(String(), index ", []byte(ix), ") failed: ", pn, err), "the original tokens"
	}
	same := len(back.tokens) == len(ts) && back.Entropy == p.Entropy
	for i := 0; same && i < len(ts); i++ {
		same = back.tokens[i] == ts[i]
	}
	if !same {
		return true, vSprint("round trip gives ", back.tokens, " from index ", []byte(ix)), vSprint("the original tokens ", ts)
	}
	return false, "", ""
}

func TestVerifReplay(t *testing.T) {
	req := vLoad()
	defer vFlush()
	r := &vRng{s: uint64(req.Seed)*15485863 + 5}
	vals := []string{"a", "b", "é", "日", "ab", "héllo", "日本語", "-", " ", "12", "", strings.Repeat("x", 255), strings.Repeat("x", 256), strings.Repeat("日", 255), strings.Repeat("é", 256), strings.Repeat("日", 86), "𝔘", "é"}
	try := func(ts Tokens) bool {
		if bad, obs, rq := c11Check(ts); bad {
			var in []c11Tok
			for _, t := range ts {
				v := t.value
				if len(v) > 40 {
					v = v[:40] + vSprint("…(", utf8.RuneCountInString(t.value), " characters)")
				}
				in = append(in, c11Tok{v, int(t.tType)})
			}
			vReport(vHit{Input: in, Observed: obs, Required: rq})
			return true
		}
		return false
	}
	// systematic: all sequences up to length 3 over a small value/type set
	small := []string{"a", "é", "ab", "日本", "", strings.Repeat("é", 256), strings.Repeat("y", 255)}
	types := []TokenType{AtomType, SeparatorType, 7}
	var rec func(ts Tokens, d int) bool
	rec = func(ts Tokens, d int) bool {
		if len(ts) > 0 && try(ts) {
			return true
		}
		if d == 0 {
			return false
		}
		for _, v := range small {
			for _, ty := range types {
				if rec(append(append(Tokens{}, ts...), Token{v, ty}), d-1) {
					return true
				}
			}
		}
		return false
	}
	if rec(nil, 3) {
		return
	}
	n := 20000
	if req.Tier == "thorough" {
		n = 400000
	}
	for i := 0; i < n; i++ {
		l := 1 + r.intn(7)
		ts := make(Tokens, l)
		mode := r.intn(4)
		for j := range ts {
			ts[j].value = vals[r.intn(len(vals))]
			switch mode {
			case 0:
				ts[j].tType = AtomType
			case 1:
				ts[j].tType = TokenType(1 - j%2)
			default:
				ts[j].tType = TokenType(r.intn(3))
			}
			if mode == 0 && r.intn(2) == 0 {
				ts[j].value = []string{"a", "é", "日", "𝔘"}[r.intn(4)]
			}
		}
		if try(ts) {
			return
		}
	}
}
