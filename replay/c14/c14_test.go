package spg

import (
	"crypto/rand"
	"strings"
	"sync"
	"testing"
)

// c14Source: a goroutine-safe pseudo-random source written in Go, so that the race detector sees the bytes being
// stored into the caller's buffer (stores made by the kernel for the real source are invisible to it). The generator
// state is locked; the copy into the caller's buffer is not - that buffer belongs to the caller.
type c14Source struct {
	mu sync.Mutex
	s  uint64
}

func (r *c14Source) Read(b []byte) (int, error) {
	tmp := make([]byte, len(b))
	r.mu.Lock()
	for i := range tmp {
		r.s ^= r.s << 13
		r.s ^= r.s >> 7
		r.s ^= r.s << 17
		tmp[i] = byte(r.s >> 32)
	}
	r.mu.Unlock()
	copy(b, tmp)
	return len(b), nil
}

// C14 replay (run under the race detector): goroutines share recipe values, a word list, the
// package-level separator presets and constructed separator functions. A data race is reported by
// the race detector (the driver turns its report into the failing schedule); behavioural damage
// (a password that does not satisfy its recipe or carries a different entropy) is reported here.

func c14Has(s, set string) bool { return strings.ContainsAny(s, set) }

func TestVerifReplay(t *testing.T) {
	req := vLoad()
	defer vFlush()
	oldReader := rand.Reader
	rand.Reader = &c14Source{s: uint64(req.Seed)*0x9E3779B97F4A7C15 + 1}
	defer func() { rand.Reader = oldReader }()
	rounds := 60
	if req.Tier == "thorough" {
		rounds = 600
	}
	words := []string{"alpha", "bravo", "charlie", "delta", "echo", "foxtrot", "golf", "hotel"}
	wl, err := NewWordList(words)
	if err != nil {
		t.Fatal(err)
	}
	custom := NewSFFunction(CharRecipe{Length: 12, Allow: Lowers, Require: Digits | Uppers, RequireSets: []string{"#%&+=", "<>?/"}, Exclude: Ambiguous})
	customRecipe := CharRecipe{Length: 12, Allow: Lowers, Require: Digits | Uppers, RequireSets: []string{"#%&+=", "<>?/"}, Exclude: Ambiguous}
	customEnt := customRecipe.Entropy()
	cr := CharRecipe{Length: 40, Allow: Letters, Require: Digits | Symbols, Exclude: Ambiguous, RequireSets: []string{"éü", "xyz"}}
	crEnt := cr.Entropy()
	crAlpha := cr.Alphabet()
	crSP := cr.SuccessProbability()
	wr := WLRecipe{Length: 4, list: wl, Capitalize: CSRandom, SeparatorFunc: custom}
	wr2 := NewWLRecipe(3, wl)
	wr2.SeparatorFunc = SFDigitsSymbols
	wr2.Capitalize = CSOne
	wrEnt := wr.Entropy()
	wr2Ent := wr2.Entropy()

	var mu sync.Mutex
	report := func(in map[string]interface{}, obs, rq string) {
		mu.Lock()
		defer mu.Unlock()
		vReport(vHit{Input: in, Observed: obs, Required: rq})
	}
	checkSep := func(s string, e FloatE) {
		in := map[string]interface{}{"shared": "separator function NewSFFunction(CharRecipe{Length:12, Allow:Lowers, Require:Digits|Uppers, RequireSets:{\"#%&+=\",\"<>?/\"}, Exclude:Ambiguous})", "goroutines": 8}
		if len([]rune(s)) != 12 || !c14Has(s, "0123456789") || !c14Has(s, "ABCDEFGHIJKLMNOPQRSTUVWXYZ") || !c14Has(s, "#%&+=") || !c14Has(s, "<>?/") || c14Has(s, "0O1Il5S") {
			report(in, "separator "+s, "12 characters with a digit, an upper-case letter, one of #%&+= and one of <>?/, none of the ambiguous characters")
		}
		if float32(e) != customEnt {
			report(in, vSprint("separator entropy ", e), vSprint("the recipe's entropy ", customEnt))
		}
	}
	// a word list and recipes that no call has touched before the goroutines start
	for round := 0; round < 5; round++ {
		wl2, _ := NewWordList([]string{"one", "two", "3", "Four", "five", "six"})
		fresh := WLRecipe{Length: 3, list: wl2, Capitalize: CSRandom, SeparatorChar: " "}
		ents := make([]float32, 8)
		var wg2 sync.WaitGroup
		for g := 0; g < 8; g++ {
			wg2.Add(1)
			go func(g int) {
				defer wg2.Done()
				if g%2 == 0 {
					ents[g] = fresh.Entropy()
				} else if p, err := fresh.Generate(); err == nil {
					ents[g] = p.Entropy
				}
			}(g)
		}
		wg2.Wait()
		want := float32(3 * 2.584962500721156) // a word unchanged by title-casing: no capitalisation term
		for g := range ents {
			if d := ents[g] - want; d > 1e-3 || d < -1e-3 {
				report(map[string]interface{}{"shared": "fresh WordList{one,two,3,Four,five,six}, WLRecipe{Length:3, CSRandom}", "goroutines": 8}, vSprint("entropy ", ents[g], " in goroutine ", g), vSprint("3*log2(6) = ", want))
			}
		}
	}
	// first concurrent use of freshly constructed separator functions (anything computed lazily on first use shows here)
	for round := 0; round < 20; round++ {
		fresh := NewSFFunction(CharRecipe{Length: 2, Allow: Digits})
		start := make(chan struct{})
		var wg3 sync.WaitGroup
		for g := 0; g < 8; g++ {
			wg3.Add(1)
			go func() {
				defer wg3.Done()
				<-start
				s, e := fresh()
				if len(s) != 2 || e < 6.6 || e > 6.7 {
					report(map[string]interface{}{"shared": "NewSFFunction(CharRecipe{Length:2, Allow:Digits}), first use from 8 goroutines at once"}, vSprint("separator ", s, " entropy ", e), "two digits, entropy 2*log2(10)")
				}
			}()
		}
		close(start)
		wg3.Wait()
	}
	var wg sync.WaitGroup
	for g := 0; g < 8; g++ {
		wg.Add(1)
		go func(g int) {
			defer wg.Done()
			for i := 0; i < rounds; i++ {
				switch (g + i) % 6 {
				case 0:
					p, err := cr.Generate()
					in := map[string]interface{}{"shared": "CharRecipe{Length:40, Allow:Letters, Require:Digits|Symbols, Exclude:Ambiguous, RequireSets:{\"éü\",\"xyz\"}}", "goroutines": 8}
					if err != nil || p == nil {
						report(in, vSprint("error ", err), "a password")
						continue
					}
					s := p.String()
					if len([]rune(s)) != 40 || !c14Has(s, "2346789") || !c14Has(s, "!@.-_*") || !c14Has(s, "éü") || !c14Has(s, "xyz") || c14Has(s, "0O1Il5S") || p.Entropy != crEnt {
						report(in, vSprint("password ", s, " entropy ", p.Entropy), vSprint("40 characters satisfying the recipe, entropy ", crEnt))
					}
				case 1:
					if e, a, sp := cr.Entropy(), cr.Alphabet(), cr.SuccessProbability(); e != crEnt || a != crAlpha || sp != crSP {
						report(map[string]interface{}{"shared": "CharRecipe", "goroutines": 8}, vSprint("Entropy ", e, " Alphabet ", a, " SuccessProbability ", sp), vSprint(crEnt, " ", crAlpha, " ", crSP))
					}
				case 2:
					checkSep(custom())
				case 3:
					p, err := wr.Generate()
					in := map[string]interface{}{"shared": "WLRecipe{Length:4, 8 words, CSRandom, constructed separator function}", "goroutines": 8}
					if err != nil || p == nil {
						report(in, vSprint("error ", err), "a password")
						continue
					}
					ts := p.Tokens()
					if len(ts) != 7 || p.Entropy != wrEnt {
						report(in, vSprint("password ", p.String(), " tokens ", len(ts), " entropy ", p.Entropy), vSprint("4 words and 3 separators, entropy ", wrEnt))
						continue
					}
					for k, tk := range ts {
						if k%2 == 1 {
							checkSep(tk.Value(), FloatE(customEnt))
						} else if lw := strings.ToLower(tk.Value()); !strings.Contains(" "+strings.Join(words, " ")+" ", " "+lw+" ") {
							report(in, "word "+tk.Value(), "a word of the list")
						}
					}
				case 4:
					p, err := wr2.Generate()
					in := map[string]interface{}{"shared": "*WLRecipe{Length:3, CSOne, SFDigitsSymbols}", "goroutines": 8}
					if err != nil || p == nil || len(p.Tokens()) != 5 || p.Entropy != wr2Ent {
						report(in, vSprint("err ", err), vSprint("a 5-token password with entropy ", wr2Ent))
					}
				case 5:
					if wr.Entropy() != wrEnt || wr2.Entropy() != wr2Ent || wr.Size() != 8 || wl.Size() != 8 {
						report(map[string]interface{}{"shared": "WLRecipe / WordList", "goroutines": 8}, "Entropy()/Size() changed under concurrency", vSprint(wrEnt, " ", wr2Ent, " 8"))
					}
					s, e := SFDigits2()
					if len(s) != 2 || e <= 6.6 || e >= 6.7 {
						report(map[string]interface{}{"shared": "SFDigits2", "goroutines": 8}, vSprint(s, " ", e), "two digits, entropy 2*log2(10)")
					}
				}
			}
		}(g)
	}
	wg.Wait()
}
