package spg

import (
	"sort"
	"strings"
	"testing"
)

var c03Classes = map[CTFlag]string{Uppers: "ABCDEFGHIJKLMNOPQRSTUVWXYZ", Lowers: "abcdefghijklmnopqrstuvwxyz", Digits: "0123456789", Symbols: "!@.-_*", Ambiguous: "0O1Il5S"}

func c03Set(s string) map[string]bool {
	m := map[string]bool{}
	for _, c := range strings.Split(s, "") {
		m[c] = true
	}
	return m
}

// specification from the statement of C03
func c03Spec(r CharRecipe) (alphabet []string, excluded map[string]bool, req []map[string]bool) {
	excluded = c03Set(r.ExcludeChars)
	al := c03Set(r.AllowChars)
	var srcs []map[string]bool
	for _, s := range r.RequireSets {
		if s != "" {
			srcs = append(srcs, c03Set(s))
		}
	}
	for _, f := range []CTFlag{Uppers, Lowers, Digits, Symbols, Ambiguous} {
		if r.Exclude&f != 0 {
			for k := range c03Set(c03Classes[f]) {
				excluded[k] = true
			}
		}
		if r.Allow&f != 0 {
			for k := range c03Set(c03Classes[f]) {
				al[k] = true
			}
		}
		if r.Require&f != 0 {
			srcs = append(srcs, c03Set(c03Classes[f]))
		}
	}
	a := map[string]bool{}
	for k := range al {
		if !excluded[k] {
			a[k] = true
		}
	}
	for _, s := range srcs {
		m := map[string]bool{}
		for k := range s {
			if !excluded[k] {
				m[k] = true
				a[k] = true
			}
		}
		if len(m) > 0 {
			req = append(req, m)
		}
	}
	for k := range a {
		alphabet = append(alphabet, k)
	}
	sort.Strings(alphabet)
	return
}

func c03Check(r CharRecipe, tape []byte) (bad bool, obs, rq string) {
	alphabet, excluded, req := c03Spec(r)
	inA := map[string]bool{}
	for _, c := range alphabet {
		inA[c] = true
	}
	var al string
	if pn := func() (x interface{}) { defer func() { x = recover() }(); al = r.Alphabet(); return nil }(); pn != nil {
		return true, vSprint("Alphabet() panicked: ", pn), "the sorted alphabet"
	}
	if al != strings.Join(alphabet, "") {
		return true, "Alphabet() = " + al, "exactly the characters that can appear, sorted, without repeats: " + strings.Join(alphabet, "")
	}
	var p *Password
	var err error
	pn := vWithTape(newTape(tape), func() { p, err = r.Generate() })
	if pn != nil {
		return true, vSprint("Generate panicked: ", pn), "a password or an error"
	}
	if err != nil || p == nil {
		return false, "", "" // refusals are C13's subject
	}
	ts := p.Tokens()
	if len(ts) != r.Length {
		return true, vSprint(len(ts), " tokens: ", p.String()), vSprint("exactly ", r.Length, " single-character atoms")
	}
	var chars []string
	for _, t := range ts {
		v := t.Value()
		if t.Type() != AtomType || len([]rune(v)) != 1 {
			return true, vSprint("token ", v, " of type ", t.Type()), "single-character atom tokens"
		}
		if excluded[v] {
			return true, vSprint("password ", p.String(), " contains the excluded character ", v), "an excluded character never appears"
		}
		if !inA[v] {
			return true, vSprint("password ", p.String(), " contains ", v), "only allowed or required characters: " + strings.Join(alphabet, "")
		}
		chars = append(chars, v)
	}
	for _, m := range req {
		hit := false
		for _, c := range chars {
			if m[c] {
				hit = true
			}
		}
		if !hit {
			var ks []string
			for k := range m {
				ks = append(ks, k)
			}
			sort.Strings(ks)
			return true, "password " + p.String(), "at least one character from the required set " + strings.Join(ks, "")
		}
	}
	if p.Entropy != r.Entropy() {
		return true, vSprint("Password.Entropy ", p.Entropy), vSprint("the recipe's Entropy() ", r.Entropy())
	}
	return false, "", ""
}

func c03Recipes(r *vRng, n int) []CharRecipe {
	pool := []string{"", "abc", "357", "ABC", "é日", "0O1", "xyz", "!@", "aA1!", "q", "éé", "aab", "S5"}
	var out []CharRecipe
	// systematic: every (require, exclude) class pair with everything allowed - a required class that is also excluded must never show up
	for _, f := range []CTFlag{Uppers, Lowers, Digits, Symbols, Ambiguous} {
		for _, g := range []CTFlag{Uppers, Lowers, Digits, Symbols, Ambiguous} {
			out = append(out, CharRecipe{Length: 6, Allow: All, Require: f, Exclude: g})
			out = append(out, CharRecipe{Length: 5, Allow: Lowers, Require: f | g, Exclude: g})
		}
	}
	out = append(out, CharRecipe{Length: 4, RequireSets: []string{"abc", "a"}}, CharRecipe{Length: 4, RequireSets: []string{"ab", "bc"}},
		CharRecipe{Length: 5, Require: Uppers | Lowers | Digits | Ambiguous}, CharRecipe{Length: 1, Allow: Digits, Exclude: Ambiguous}, CharRecipe{Length: 2, Allow: Digits, Exclude: Ambiguous})
	for i := 0; i < n; i++ {
		c := CharRecipe{Length: 1 + r.intn(9), Allow: CTFlag(r.intn(32)), Require: CTFlag(r.intn(32)) & CTFlag(r.intn(32)), Exclude: CTFlag(r.intn(32)) & CTFlag(r.intn(32))}
		if r.intn(2) == 0 {
			c.AllowChars = pool[r.intn(len(pool))]
		}
		if r.intn(3) == 0 {
			c.ExcludeChars = pool[r.intn(len(pool))]
		}
		for k := r.intn(3); k > 0; k-- {
			c.RequireSets = append(c.RequireSets, pool[r.intn(len(pool))])
		}
		out = append(out, c)
	}
	return out
}

func TestVerifReplay(t *testing.T) {
	req := vLoad()
	defer vFlush()
	r := &vRng{s: uint64(req.Seed)*1103515245 + 12345}
	n := 600
	if req.Tier == "thorough" {
		n = 20000
	}
	for _, rc := range c03Recipes(r, n) {
		alphabet, _, _ := c03Spec(rc)
		m := uint32(len(alphabet))
		for rep := 0; rep < 4; rep++ {
			tape := make([]byte, 1<<13)
			switch rep {
			case 0: // every draw is the last index of the alphabet
				if m > 0 {
					tape = nil
					for i := 0; i < 2048; i++ {
						tape = append(tape, vWords(m-1)...)
					}
				}
			case 1: // every draw is index 0
			default:
				for j := range tape {
					tape[j] = byte(r.next())
				}
			}
			if bad, obs, rq := c03Check(rc, tape); bad {
				vReport(vHit{Input: map[string]interface{}{"recipe": rc, "tape_prefix": tape[:min3(16, len(tape))]}, Observed: obs, Required: rq})
				return
			}
		}
	}
}

func min3(a, b int) int {
	if a < b {
		return a
	}
	return b
}
