package spg

import (
	"math"
	"reflect"
	"strings"
	"testing"
)

// C15 replay: call histories with caller-side field updates. Every call's observable result is
// compared with what the recipe's CURRENT field values require (exact enumeration for small
// alphabets), and the caller's values (public fields, RequireSets backing array, word slice,
// word list) are compared before and after every call.

func c15Spec(r CharRecipe) (alpha []string, req [][]string) {
	x := map[string]bool{}
	for _, c := range strings.Split(r.ExcludeChars, "") {
		x[c] = true
	}
	seen := map[string]bool{}
	add := func(s string) {
		for _, c := range strings.Split(s, "") {
			if c != "" && !x[c] && !seen[c] {
				seen[c] = true
				alpha = append(alpha, c)
			}
		}
	}
	add(r.AllowChars)
	for _, s := range r.RequireSets {
		add(s)
		var m []string
		for _, c := range strings.Split(s, "") {
			if c != "" && !x[c] {
				m = append(m, c)
			}
		}
		if len(m) > 0 {
			req = append(req, m)
		}
	}
	return
}

func c15Count(alpha []string, req [][]string, L int) float64 {
	idx := make([]int, L)
	valid := 0.0
	for {
		ok := true
		for _, rs := range req {
			hit := false
			for _, i := range idx {
				for _, c := range rs {
					if alpha[i] == c {
						hit = true
					}
				}
			}
			if !hit {
				ok = false
				break
			}
		}
		if ok {
			valid++
		}
		k := 0
		for k < L {
			idx[k]++
			if idx[k] < len(alpha) {
				break
			}
			idx[k] = 0
			k++
		}
		if k == L {
			return valid
		}
	}
}

type c15Snap struct {
	R    CharRecipe
	Sets []string // the full backing array of RequireSets, up to capacity
}

func c15Take(r *CharRecipe) c15Snap {
	s := c15Snap{R: *r}
	s.R.RequireSets = append([]string(nil), r.RequireSets...)
	s.Sets = append([]string(nil), r.RequireSets[:cap(r.RequireSets)]...)
	return s
}

func (s c15Snap) same(r *CharRecipe) bool {
	return s.R.Length == r.Length && s.R.Allow == r.Allow && s.R.Require == r.Require && s.R.Exclude == r.Exclude && s.R.AllowChars == r.AllowChars &&
		s.R.ExcludeChars == r.ExcludeChars && reflect.DeepEqual(s.R.RequireSets, append([]string(nil), r.RequireSets...)) &&
		reflect.DeepEqual(s.Sets, append([]string(nil), r.RequireSets[:cap(r.RequireSets)]...))
}

func TestVerifReplay(t *testing.T) {
	req := vLoad()
	defer vFlush()
	rng := &vRng{s: uint64(req.Seed)*40503 + 7}
	steps := 400
	if req.Tier == "thorough" {
		steps = 6000
	}
	pool := []string{"", "ab", "c", "a", "bc", "abc", "12", "1", "é", "xy", "b"}
	// two recipes used alternately: state must not travel between them either
	rs := []*CharRecipe{{Length: 3, AllowChars: "abc"}, {Length: 2, AllowChars: "xy", RequireSets: []string{"", "ab", "c"}}}
	// directed histories: recipes whose fields differ only in how the same characters are grouped or where they are listed
	near := []CharRecipe{
		{Length: 3, AllowChars: "xy", RequireSets: []string{"ab", "c"}}, {Length: 3, AllowChars: "xy", RequireSets: []string{"a", "bc"}},
		{Length: 3, AllowChars: "xy", RequireSets: []string{"abc"}}, {Length: 3, AllowChars: "xy", RequireSets: []string{"a", "b", "c"}},
		{Length: 3, AllowChars: "xyab", RequireSets: []string{"c"}}, {Length: 3, AllowChars: "xya", RequireSets: []string{"bc"}},
		{Length: 3, AllowChars: "xy", RequireSets: []string{"ab", "c"}, ExcludeChars: "b"}, {Length: 3, AllowChars: "xy", RequireSets: []string{"a", "bc"}, ExcludeChars: "b"},
		{Length: 4, AllowChars: "xy", RequireSets: []string{"ab", "c"}}, {Length: 2, AllowChars: "xy", RequireSets: []string{"c", "ab"}},
		{Length: 3, AllowChars: "xy", RequireSets: []string{"ab", "cd"}}, {Length: 3, AllowChars: "xy", RequireSets: []string{"ab,cd"}},
		{Length: 3, AllowChars: "xy", RequireSets: []string{"ab cd"}}, {Length: 3, AllowChars: "xy", RequireSets: []string{"ab|cd"}}, {Length: 3, AllowChars: "xy", RequireSets: []string{"ab", "", "cd"}},
	}
	for i := range near {
		for j := range near {
			a, b := near[i], near[j]
			a.Entropy()
			a.SuccessProbability()
			alpha, reqs := c15Spec(b)
			cnt := c15Count(alpha, reqs, b.Length)
			if cnt == 0 {
				continue
			}
			want := math.Log2(cnt)
			if got := float64(b.Entropy()); math.IsNaN(got) || math.Abs(got-want) > 1e-3*math.Max(1, want) {
				vReport(vHit{Input: map[string]interface{}{"earlier_call": vSprint("Entropy on ", a), "recipe_now": b}, Observed: vSprint("Entropy() = ", got), Required: vSprint("the entropy of the current fields, whatever was called before: ", want)})
				return
			}
			wantSP := cnt / math.Pow(float64(len(alpha)), float64(b.Length))
			if got := float64(b.SuccessProbability()); math.IsNaN(got) || math.Abs(got-wantSP) > 1e-3 {
				vReport(vHit{Input: map[string]interface{}{"earlier_call": vSprint("SuccessProbability on ", a), "recipe_now": b}, Observed: vSprint("SuccessProbability() = ", got), Required: vSprint("the exact fraction for the current fields: ", wantSP)})
				return
			}
		}
	}
	var history []string
	for step := 0; step < steps; step++ {
		r := rs[rng.intn(2)]
		// caller-side update
		switch rng.intn(6) {
		case 0:
			r.Length = 1 + rng.intn(4)
		case 1:
			r.AllowChars = pool[rng.intn(len(pool))]
		case 2:
			n := rng.intn(4)
			sets := make([]string, 0, n+rng.intn(2))
			for k := 0; k < n; k++ {
				sets = append(sets, pool[rng.intn(len(pool))])
			}
			r.RequireSets = sets
		case 3:
			r.ExcludeChars = pool[rng.intn(len(pool))]
		case 4:
			if len(r.RequireSets) > 0 {
				r.RequireSets[rng.intn(len(r.RequireSets))] = pool[rng.intn(len(pool))]
			}
		}
		alpha, reqs := c15Spec(*r)
		before := c15Take(r)
		call := rng.intn(4)
		name := []string{"Generate", "Entropy", "Alphabet", "SuccessProbability"}[call]
		history = append(history, vSprint(name, " on ", *r))
		if len(history) > 6 {
			history = history[len(history)-6:]
		}
		in := map[string]interface{}{"recent_calls_oldest_first": history, "recipe_now": *r}
		bad := func(obs, rq string) {
			vReport(vHit{Input: in, Observed: obs, Required: rq})
		}
		switch call {
		case 0:
			tape := make([]byte, 4096)
			for j := range tape {
				tape[j] = byte(rng.next())
			}
			var p *Password
			var err error
			pn := vWithTape(newTape(tape), func() { p, err = r.Generate() })
			if pn != nil {
				bad(vSprint("panic ", pn), "no panic")
				return
			}
			if err == nil {
				s := p.String()
				okc := len([]rune(s)) == r.Length
				for _, c := range strings.Split(s, "") {
					f := false
					for _, a := range alpha {
						if a == c {
							f = true
						}
					}
					okc = okc && f
				}
				for _, rq := range reqs {
					okc = okc && strings.ContainsAny(s, strings.Join(rq, ""))
				}
				if !okc {
					bad("password "+s, vSprint("a password for the current fields: length ", r.Length, " over ", strings.Join(alpha, ""), " with requirements ", reqs))
					return
				}
			} else if len(alpha) > 0 && len(reqs) == 0 {
				bad(vSprint("error ", err), "a password: the current fields describe a satisfiable recipe")
				return
			}
		case 1:
			if len(alpha) > 0 {
				want := math.Log2(c15Count(alpha, reqs, r.Length))
				got := float64(r.Entropy())
				if math.IsNaN(got) || math.Abs(got-want) > 1e-3*math.Max(1, math.Abs(want)) && !(math.IsInf(want, -1) && got < -1e6) {
					if !math.IsInf(want, -1) {
						bad(vSprint("Entropy() = ", got), vSprint("the entropy of the current fields: ", want))
						return
					}
				}
			}
		case 2:
			want := append([]string(nil), alpha...)
			sortStrings(want)
			if got := r.Alphabet(); got != strings.Join(want, "") {
				bad("Alphabet() = "+got, "the alphabet of the current fields: "+strings.Join(want, ""))
				return
			}
		case 3:
			if len(alpha) > 0 {
				want := c15Count(alpha, reqs, r.Length) / math.Pow(float64(len(alpha)), float64(r.Length))
				got := float64(r.SuccessProbability())
				if want > 0 && (math.IsNaN(got) || math.Abs(got-want) > 1e-3) {
					bad(vSprint("SuccessProbability() = ", got), vSprint("the exact fraction for the current fields: ", want))
					return
				}
			}
		}
		if !before.same(r) {
			bad(vSprint("after ", name, " the caller's recipe is ", *r, " (RequireSets backing array ", r.RequireSets[:cap(r.RequireSets)], ")"),
				vSprint("unchanged public fields and caller slice: ", before.R, " (backing array ", before.Sets, ")"))
			return
		}
	}
	// wordlist side: the caller's slice, the list and the recipe are not modified; the same stream gives the same password whatever came before
	src := []string{"delta", "Alpha", "alpha", "bravo", "bravo", "42", "charlie"}
	keep := append([]string(nil), src...)
	wl, err := NewWordList(src)
	if err != nil || !reflect.DeepEqual(src, keep) {
		vReport(vHit{Input: map[string]interface{}{"NewWordList": keep}, Observed: vSprint("caller slice now ", src, " err ", err), Required: "the caller's slice is not modified"})
		return
	}
	listBefore := append([]string(nil), wl.words...)
	countBefore := wl.unCapitalizableCount
	wr := NewWLRecipe(3, wl)
	wr.Capitalize = CSRandom
	wr.SeparatorChar = "-"
	var first string
	for k := 0; k < 40; k++ {
		tape := make([]byte, 256)
		for j := range tape {
			tape[j] = byte(j*37 + 11)
		}
		cp := *wr
		var p *Password
		var gerr error
		vWithTape(newTape(tape), func() { p, gerr = wr.Generate() })
		if gerr != nil {
			vReport(vHit{Input: "shared wordlist recipe", Observed: vSprint(gerr), Required: "a password"})
			return
		}
		if k == 0 {
			first = p.String()
		} else if p.String() != first {
			vReport(vHit{Input: map[string]interface{}{"call": k, "same_stream": true}, Observed: "password " + p.String(), Required: "the same password as the first call on the same stream: " + first})
			return
		}
		// unrelated calls in between
		wr.Entropy()
		CharRecipe{Length: 3 + k%3, Allow: Digits, RequireSets: []string{"ab"}}.Generate()
		if !reflect.DeepEqual(wl.words, listBefore) || wl.unCapitalizableCount != countBefore || cp.Length != wr.Length || cp.Capitalize != wr.Capitalize || cp.SeparatorChar != wr.SeparatorChar || cp.list != wr.list {
			vReport(vHit{Input: map[string]interface{}{"call": k}, Observed: vSprint("word list / recipe changed: ", wl.words, " ", wl.unCapitalizableCount), Required: vSprint("unchanged: ", listBefore, " ", countBefore)})
			return
		}
	}
}

func sortStrings(a []string) {
	for i := 1; i < len(a); i++ {
		for j := i; j > 0 && a[j-1] > a[j]; j-- {
			a[j-1], a[j] = a[j], a[j-1]
		}
	}
}
