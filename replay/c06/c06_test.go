package spg

import (
	"math"
	"strings"
	"testing"
)

// C06 replay: the exact output distribution of the real generators on a complete cell of the
// random stream (wordlist recipes), exact counting of valid strings (character recipes), and
// Password.Entropy == Entropy() everywhere.

func c06Outcome(ts Tokens) string {
	var b strings.Builder
	for _, t := range ts {
		b.WriteString(vSprint(int(t.Type()), ":", t.Value(), "|"))
	}
	return b.String()
}

type c06Case struct {
	Words  []string
	Length int
	Cap    CapScheme
	SepN   int
}

func c06Run(c c06Case, maxDraws int) (impl map[string]int, total int, ent float32, M uint32, fail string) {
	seps := "-_.:+"
	// one list for all streams: NewWordList orders the kept words by Go map iteration, which differs between constructions
	wl, werr := NewWordList(c.Words)
	if werr != nil {
		return nil, 0, 0, 0, vSprint("NewWordList: ", werr)
	}
	// the cell: raw words range over [0,M) with M a common multiple of every bound used (kept list size, Length, 2, separators)
	M = 2
	for _, k := range []int{int(wl.Size()), c.Length, c.SepN} {
		if k > 1 {
			a, b := int(M), k
			for b != 0 {
				a, b = b, a%b
			}
			M = M / uint32(a) * uint32(k)
		}
	}
	mk := func() *WLRecipe {
		r := NewWLRecipe(c.Length, wl)
		r.Capitalize = c.Cap
		if c.SepN > 0 {
			k := uint32(c.SepN)
			e := FloatE(math.Log2(float64(k)))
			r.SeparatorFunc = func() (string, FloatE) { return string(seps[randomUint32n(k)]), e }
		}
		return r
	}
	probe := newTape(nil)
	var err error
	var p0 *Password
	if pn := vWithTape(probe, func() { p0, err = mk().Generate() }); pn != nil || err != nil {
		return nil, 0, 0, M, vSprint("probe failed: ", pn, err)
	}
	vWithTape(newTape(nil), func() { ent = mk().Entropy() })
	if p0.Entropy != ent {
		return nil, 0, ent, M, vSprint("Password.Entropy = ", p0.Entropy, " but the recipe's Entropy() = ", ent)
	}
	D := probe.pos / 4
	if D > maxDraws {
		return nil, 0, ent, M, ""
	}
	impl = map[string]int{}
	total = 1
	for i := 0; i < D; i++ {
		total *= int(M)
	}
	words := make([]uint32, D)
	for t := 0; t < total; t++ {
		x := t
		for i := range words {
			words[i] = uint32(x % int(M))
			x /= int(M)
		}
		tp := newTape(vWords(words...))
		var p *Password
		if pn := vWithTape(tp, func() { p, err = mk().Generate() }); pn != nil || err != nil || p == nil {
			return nil, 0, ent, M, vSprint("generation failed on raw words ", words, ": ", pn, err)
		}
		if p.Entropy != ent {
			return nil, 0, ent, M, vSprint("Password.Entropy = ", p.Entropy, " on raw words ", words, " but Entropy() = ", ent)
		}
		impl[c06Outcome(p.Tokens())]++
	}
	return impl, total, ent, M, ""
}

func c06CharCount(alpha []string, req [][]string, L int) (valid float64) {
	idx := make([]int, L)
	for {
		ok := true
		for _, rs := range req {
			hit := false
			for _, i := range idx {
				for _, c := range rs {
					if alpha[i] == c {
						hit = true
					}
				}
			}
			if !hit {
				ok = false
			}
		}
		if ok {
			valid++
		}
		k := 0
		for k < L {
			idx[k]++
			if idx[k] < len(alpha) {
				break
			}
			idx[k] = 0
			k++
		}
		if k == L {
			return
		}
	}
}

func TestVerifReplay(t *testing.T) {
	req := vLoad()
	defer vFlush()
	cases := []c06Case{
		{[]string{"ab", "cd", "ef"}, 2, CSNone, 0},
		{[]string{"ab", "cd", "ef"}, 2, CSOne, 0},
		{[]string{"ab", "cd", "ef"}, 2, CSRandom, 0},
		{[]string{"ab", "12", "ef"}, 2, CSRandom, 0}, // "12" does not change under title-casing
		{[]string{"ab", "12", "Ef"}, 2, CSOne, 0},
		{[]string{"12", "34"}, 3, CSRandom, 0},
		{[]string{"ab", "cd", "ef"}, 2, CSAll, 2},
		{[]string{"ab", "cd"}, 3, CSOne, 3},
		{[]string{"ab", "cd", "ef", "gh", "ij"}, 2, CSFirst, 0},
		{[]string{"ab", "ab", "cd"}, 2, CSNone, 0}, // duplicates are removed by NewWordList
	}
	// capitalised twins: which of the pair is met first depends on Go's map order, so several constructions each
	for k := 0; k < 12; k++ {
		cases = append(cases, c06Case{[]string{"polish", "Polish", "apple"}, 2, CSRandom, 0}, c06Case{[]string{"Polish", "apple", "polish", "Bear", "bear"}, 2, CSOne, 0},
			c06Case{[]string{"polish", "Polish", "42"}, 2, CSRandom, 0}, c06Case{[]string{"7", "Bear", "bear", "polish", "Polish"}, 2, CSOne, 0})
	}
	if req.Tier == "thorough" {
		cases = append(cases, c06Case{[]string{"ab", "cd", "7"}, 3, CSRandom, 0}, c06Case{[]string{"a", "b", "c", "d", "e", "f", "g"}, 2, CSOne, 0}, c06Case{[]string{"ab", "cd", "ef"}, 3, CSOne, 2})
	}
	for _, c := range cases {
		impl, total, ent, M, fail := c06Run(c, 7)
		in := map[string]interface{}{"words": c.Words, "length": c.Length, "capitalize": string(c.Cap), "separator_symbols": c.SepN, "raw_word_range": M}
		if fail != "" {
			vReport(vHit{Input: in, Observed: fail, Required: "every password carries the recipe's Entropy()"})
			return
		}
		if impl == nil {
			continue
		}
		best, bestK := 0, ""
		for k, n := range impl {
			if n > best || (n == best && k < bestK) {
				best, bestK = n, k
			}
		}
		pmax := float64(best) / float64(total)
		bound := math.Exp2(-float64(ent))
		if pmax > bound*(1+1e-4) {
			vReport(vHit{Input: in, Observed: vSprint("output ", bestK, " has probability ", best, "/", total, " = ", pmax, " > 2^-Entropy = ", bound, " (Entropy() = ", ent, ")"),
				Required: "no password is likelier than 2^-Entropy"})
			return
		}
		if pmax < bound*(1-1e-4) {
			vReport(vHit{Input: in, Observed: vSprint("most likely output ", bestK, " has probability ", pmax, " < 2^-Entropy = ", bound, " (Entropy() = ", ent, ")"),
				Required: "the reported value is the min-entropy (the bound is met with equality by the likeliest output)"})
			return
		}
	}
	// character recipes: Entropy() = log2(number of valid strings), the field carries it
	type cc struct {
		r     CharRecipe
		alpha []string
		req   [][]string
	}
	sp := func(s string) []string { return strings.Split(s, "") }
	ccs := []cc{
		{CharRecipe{Length: 3, AllowChars: "abc"}, sp("abc"), nil},
		{CharRecipe{Length: 3, AllowChars: "abca"}, sp("abc"), nil},
		{CharRecipe{Length: 3, AllowChars: "abc", RequireSets: []string{"12"}}, sp("abc12"), [][]string{sp("12")}},
		{CharRecipe{Length: 4, AllowChars: "ab", RequireSets: []string{"12", "x"}}, sp("ab12x"), [][]string{sp("12"), sp("x")}},
		{CharRecipe{Length: 3, AllowChars: "abc", RequireSets: []string{"ab", "bc"}}, sp("abc"), [][]string{sp("ab"), sp("bc")}},
		{CharRecipe{Length: 3, AllowChars: "abé", RequireSets: []string{"é"}, ExcludeChars: "b"}, sp("aé"), [][]string{sp("é")}},
		{CharRecipe{Length: 2, AllowChars: "abc", RequireSets: []string{"x"}, ExcludeChars: "x"}, sp("abc"), nil},
		{CharRecipe{Length: 5, Allow: Digits, Exclude: Ambiguous}, sp("2346789"), nil},
		{CharRecipe{Length: 3, Allow: Digits, RequireSets: []string{"ab"}}, sp("0123456789ab"), [][]string{sp("ab")}},
	}
	for _, c := range ccs {
		want := math.Log2(c06CharCount(c.alpha, c.req, c.r.Length))
		got := c.r.Entropy()
		in := map[string]interface{}{"recipe": c.r}
		if math.IsNaN(float64(got)) || math.Abs(float64(got)-want) > 1e-3*math.Max(1, want) {
			vReport(vHit{Input: in, Observed: vSprint("Entropy() = ", got), Required: vSprint("log2 of the number of strings the recipe can return = ", want, " (generation is uniform over them, C02)")})
			return
		}
		for rep := 0; rep < 5; rep++ {
			p, err := c.r.Generate()
			if err == nil && p != nil && p.Entropy != got {
				vReport(vHit{Input: in, Observed: vSprint("Password.Entropy = ", p.Entropy), Required: vSprint("the recipe's Entropy() = ", got)})
				return
			}
		}
	}
	// character recipes with a requirement: no valid string may be likelier than 2^-Entropy. The alphabet order is
	// Go-map dependent, so the distribution is estimated from N generations on a pseudo-random stream
	// (threshold at 5.5 standard deviations above the bound: false alarm chance about 2e-8 per string)
	{
		r := CharRecipe{Length: 2, AllowChars: "ab", RequireSets: []string{"1"}}
		ent := float64(r.Entropy())
		bound := math.Exp2(-ent)
		N := 20000
		rng := &vRng{s: uint64(req.Seed)*0x9E3779B97F4A7C15 + 12345}
		tape := make([]byte, 64*N)
		for i := range tape {
			tape[i] = byte(rng.next() >> 24)
		}
		counts := map[string]int{}
		tp := newTape(tape)
		vWithTape(tp, func() {
			for i := 0; i < N; i++ {
				if p, err := r.Generate(); err == nil {
					counts[p.String()]++
				}
			}
		})
		limit := float64(N)*bound + 5.5*math.Sqrt(float64(N)*bound*(1-bound))
		for pw, n := range counts {
			if float64(n) > limit {
				vReport(vHit{Input: map[string]interface{}{"recipe": r, "generations": N}, Observed: vSprint("password ", pw, " returned ", n, " times of ", N, " (", float64(n)/float64(N), ")"),
					Required: vSprint("at most 2^-Entropy = ", bound, " of the time (Entropy() = ", ent, "); ", limit, " occurrences would already be 5.5 standard deviations above that")})
				return
			}
		}
	}
	// constructed separator functions report the entropy of what they return
	for _, s := range []struct {
		name string
		f    SFFunction
		want float64
	}{{"SFDigits1", SFDigits1, math.Log2(10)}, {"SFDigits2", SFDigits2, 2 * math.Log2(10)}, {"SFDigitsNoAmbiguous1", SFDigitsNoAmbiguous1, math.Log2(7)}, {"SFSymbols", SFSymbols, math.Log2(6)}, {"SFNone", SFNone, 0},
		{"NewSFFunction(CharRecipe{Length:1, AllowChars:\"¡¿\"})", NewSFFunction(CharRecipe{Length: 1, AllowChars: "¡¿"}), 1},
		{"NewSFFunction(CharRecipe{Length:3, AllowChars:\"äöüé\"})", NewSFFunction(CharRecipe{Length: 3, AllowChars: "äöüé"}), 6},
		{"NewSFFunction(CharRecipe{Length:2, AllowChars:\"ab\", RequireSets:{\"1\"}})", NewSFFunction(CharRecipe{Length: 2, AllowChars: "ab", RequireSets: []string{"1"}}), math.Log2(5)}} {
		_, e := s.f()
		if math.Abs(float64(e)-s.want) > 1e-3 {
			vReport(vHit{Input: map[string]interface{}{"separator": s.name}, Observed: vSprint("reported entropy ", e), Required: vSprint("log2 of the number of equally likely separators = ", s.want)})
			return
		}
	}
}

