package spg

import (
	"bytes"
	"io"
	"log"
	"os"
	"strings"
	"testing"
)

// capture everything written to file descriptors 1 and 2 (as os.Stdout / os.Stderr) and to the process log
func c18Capture(f func()) string {
	oldOut, oldErr := os.Stdout, os.Stderr
	r, w, _ := os.Pipe()
	os.Stdout, os.Stderr = w, w
	var lb bytes.Buffer
	log.SetOutput(&lb)
	done := make(chan string)
	go func() { b, _ := io.ReadAll(r); done <- string(b) }()
	func() {
		defer func() { recover() }()
		f()
	}()
	w.Close()
	os.Stdout, os.Stderr = oldOut, oldErr
	log.SetOutput(oldErr)
	return <-done + lb.String()
}

func TestVerifReplay(t *testing.T) {
	req := vLoad()
	defer vFlush()
	r := &vRng{s: uint64(req.Seed)*48271 + 3}
	long := strings.Repeat("日本語の長い単語", 40)
	wl := &WordList{words: []string{"zanzibar", "quetzal", long, "xylophone", "Fjord"}}
	type rc struct {
		name string
		gen  func() (*Password, error)
	}
	mk := func(n int, cs CapScheme, sf SFFunction) func() (*Password, error) {
		return func() (*Password, error) {
			x := NewWLRecipe(n, wl)
			x.Capitalize, x.SeparatorFunc = cs, sf
			return x.Generate()
		}
	}
	recipes := []rc{
		{"chars 12 letters+digits required", func() (*Password, error) { return CharRecipe{Length: 12, Allow: Letters, Require: Digits}.Generate() }},
		{"chars 9 custom required sets", func() (*Password, error) {
			return CharRecipe{Length: 9, AllowChars: "qwrtzpsdfg", RequireSets: []string{"XYZ", "789"}}.Generate()
		}},
		{"chars impossible-looking requirement", func() (*Password, error) {
			return CharRecipe{Length: 10, AllowChars: "abcdefghijklmnopqrstuvwxyz", RequireSets: []string{"Q"}}.Generate()
		}},
		{"chars 8 non-ASCII alphabet", func() (*Password, error) { return CharRecipe{Length: 8, AllowChars: "äöüßéñ日本語"}.Generate() }},
		{"words 4 one-cap digits", mk(4, CSOne, SFDigits1)},
		{"words 3 random-cap symbols", mk(3, CSRandom, SFSymbols)},
		{"words 5 none", mk(5, CSNone, nil)},
	}
	// diagnostics of the constructor: counts only, never the words
	{
		dup := []string{"correct", "horse", "battery", "staple", "correct", "horse", "battery", "staple", "Horse"}
		out := c18Capture(func() { NewWordList(dup) })
		for _, w := range dup {
			if strings.Contains(strings.ToLower(out), strings.ToLower(w)) {
				vReport(vHit{Input: map[string]interface{}{"NewWordList": dup}, Observed: "library output names a word of the list: " + strings.TrimSpace(c18Head(out)),
					Required: "diagnostics contain counts and probabilities only"})
				return
			}
		}
	}
	tapes := [][]byte{nil, make([]byte, 1<<16)} // nil: real source; all-zero tape: every draw is index 0, required sets are never hit
	for i := 0; i < 3; i++ {
		b := make([]byte, 1<<14)
		for j := range b {
			b[j] = byte(r.next())
		}
		tapes = append(tapes, b)
	}
	for _, rcp := range recipes {
		for ti, tape := range tapes {
			var p *Password
			var err error
			var cands []string
			out := c18Capture(func() {
				run := func() { p, err = rcp.gen() }
				if tape == nil {
					run()
				} else {
					vWithTape(newTape(tape), run)
				}
			})
			_ = err
			var secrets []string
			if p != nil {
				secrets = append(secrets, p.String())
				for _, tk := range p.Tokens() {
					if len(tk.Value()) >= 3 {
						secrets = append(secrets, tk.Value())
					}
				}
			} else if tape != nil && len(tape) > 0 && tape[0] == 0 {
				// every attempt was the candidate made of the first alphabet character; any run of 6 equal characters betrays it
				cands = append(cands, "aaaaaa", "qqqqqq", "AAAAAA")
				if run := c18Run(out, 6); run != "" {
					cands = append(cands, run)
				}
			}
			for _, s := range append(secrets, cands...) {
				if s != "" && strings.Contains(out, s) {
					vReport(vHit{Input: map[string]interface{}{"recipe": rcp.name, "tape": ti}, Observed: "library output contains generated material: " + strings.TrimSpace(c18Head(out)),
						Required: "nothing derived from a generated password on stdout, stderr or the log"})
					return
				}
			}
			// a rejected candidate is also generated material: look for any long run drawn from the recipe alphabet in exhausted-trials output
			if p == nil && strings.Contains(out, "&{[{") {
				vReport(vHit{Input: map[string]interface{}{"recipe": rcp.name, "tape": ti}, Observed: "library output prints a token structure: " + strings.TrimSpace(c18Head(out)),
					Required: "nothing derived from a generated (or rejected) candidate in the output"})
				return
			}
		}
	}
}

func c18Head(s string) string {
	if len(s) > 300 {
		return s[:300]
	}
	return s
}

// c18Run returns a run of n equal letters or digits in s, if there is one (on the all-zero stream every
// rejected candidate is one alphabet character repeated; which character depends on Go's map order).
func c18Run(s string, n int) string {
	rs := []rune(s)
	k := 1
	for i := 1; i < len(rs); i++ {
		if rs[i] == rs[i-1] && (rs[i] >= 'a' && rs[i] <= 'z' || rs[i] >= 'A' && rs[i] <= 'Z' || rs[i] >= '0' && rs[i] <= '9') {
			k++
			if k >= n {
				return string(rs[i-n+1 : i+1])
			}
		} else {
			k = 1
		}
	}
	return ""
}
