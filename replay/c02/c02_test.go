package spg

import (
	"sort"
	"strings"
	"testing"
)

// C02: exact uniformity cannot be observed through the characters (Go randomises the alphabet's
// order on every call), so the replay harness observes what is order-independent: the alphabet has
// no repeats, every position is one draw over exactly |alphabet| alternatives, a rejected
// candidate costs a complete redraw (Length fresh draws), and nothing invalid is returned.
func c02Thr(n uint64) uint64 {
	if (uint64(1)<<32)%n == 0 {
		return 1 << 32
	}
	return (1<<32 - 1) - (1<<32-1)%n
}

func c02Alphabet(r CharRecipe) []string {
	x := map[string]bool{}
	a := map[string]bool{}
	for _, c := range strings.Split(r.ExcludeChars, "") {
		x[c] = true
	}
	add := func(s string) {
		for _, c := range strings.Split(s, "") {
			if c != "" {
				a[c] = true
			}
		}
	}
	add(r.AllowChars)
	for _, s := range r.RequireSets {
		add(s)
	}
	var out []string
	for c := range a {
		if !x[c] {
			out = append(out, c)
		}
	}
	sort.Strings(out)
	return out
}

func TestVerifReplay(t *testing.T) {
	req := vLoad()
	defer vFlush()
	_ = req
	recipes := []CharRecipe{
		{Length: 4, AllowChars: "abcabc", RequireSets: []string{"xy", "yz"}},
		{Length: 3, AllowChars: "abc", RequireSets: []string{"ab", "bc"}},
		{Length: 5, AllowChars: "ééa日日b"},
		{Length: 3, AllowChars: "ab", RequireSets: []string{"c"}},
		{Length: 6, AllowChars: "abcdefg", RequireSets: []string{"gh", "h"}},
		{Length: 2, AllowChars: "abcde", ExcludeChars: "e", RequireSets: []string{"ea"}},
	}
	for _, r := range recipes {
		alpha := c02Alphabet(r)
		m := uint64(len(alpha))
		in := map[string]interface{}{"recipe": r, "alphabet": strings.Join(alpha, "")}
		if got := r.Alphabet(); got != strings.Join(alpha, "") {
			vReport(vHit{Input: in, Observed: "Alphabet() = " + got, Required: "no character listed twice: " + strings.Join(alpha, "")})
			return
		}
		L := r.Length
		// (1) the bound of every draw is |alphabet|: the smallest raw word rejected for that bound costs exactly one extra draw
		if thr := c02Thr(m); thr < 1<<32 {
			words := []uint32{uint32(thr)}
			for i := 0; i < 4096; i++ {
				words = append(words, 0)
			}
			tp := newTape(vWords(words...))
			var p *Password
			var err error
			pn := vWithTape(tp, func() { p, err = r.Generate() })
			if pn == nil && err == nil && p != nil && tp.pos%(4) == 0 {
				draws := tp.pos / 4
				if (draws-1)%L != 0 {
					vReport(vHit{Input: in, Observed: vSprint(draws, " raw words consumed when the first raw word is ", thr),
						Required: vSprint("1 + k*", L, " raw words: the value ", thr, " is the smallest one rejected for a draw over ", m, " alternatives, every position is one such draw")})
					return
				}
			}
		}
		// (2) all-zero stream: every candidate is the same string; it is either valid (one attempt) or
		// every permitted attempt is a complete redraw
		for rep := 0; rep < 12; rep++ {
			tp := newTape(make([]byte, 1<<16))
			var p *Password
			var err error
			pn := vWithTape(tp, func() { p, err = r.Generate() })
			if pn != nil {
				vReport(vHit{Input: in, Observed: vSprint("panic ", pn), Required: "password or error"})
				return
			}
			draws := tp.pos / 4
			switch {
			case err == nil && p != nil && draws != L:
				vReport(vHit{Input: in, Observed: vSprint("password ", p.String(), " after ", draws, " draws on an all-zero stream"), Required: vSprint("a first candidate that is valid is returned after exactly ", L, " draws")})
				return
			case err != nil && draws != 0 && draws != MaxTrials*L: // a refusal before generation draws nothing; giving up after all attempts draws MaxTrials*Length
				vReport(vHit{Input: in, Observed: vSprint(draws, " draws for ", MaxTrials, " rejected candidates"), Required: vSprint(MaxTrials*L, ": every retry redraws all ", L, " positions (a rejected candidate leaves nothing behind)")})
				return
			}
		}
	}
}
