package spg

// Shared helpers of the replay harnesses. These files are injected into the
// package with `go test -overlay`; nothing is written into the repository.

import (
	"crypto/rand"
	"encoding/json"
	"errors"
	"fmt"
	"io"
	"os"
	"strconv"
	"strings"
)

type vFinding struct {
	Obligation string            `json:"obligation"`
	Model      map[string]string `json:"model"`
	Input      json.RawMessage   `json:"failing_input"`
}

type vReq struct {
	Property string     `json:"property"`
	Tier     string     `json:"tier"`
	Seed     int        `json:"seed"`
	Findings []vFinding `json:"findings"`
}

type vHit struct {
	Obligation string      `json:"obligation"`
	Input      interface{} `json:"input"`
	Observed   string      `json:"observed"`
	Required   string      `json:"required"`
}

func vLoad() vReq {
	var r vReq
	b, err := os.ReadFile(os.Getenv("VERIF_REPLAY_IN"))
	if err == nil {
		json.Unmarshal(b, &r)
	}
	if r.Seed == 0 {
		r.Seed = 1
	}
	return r
}

var vHits []vHit

func vReport(h vHit) {
	if len(vHits) < 20 {
		vHits = append(vHits, h)
		vFlush()
	}
}

func vFlush() {
	b, _ := json.MarshalIndent(vHits, "", " ")
	os.WriteFile(os.Getenv("VERIF_REPLAY_OUT"), b, 0o644)
}

// vInt parses an SMT integer value such as "5" or "(- 5)".
func vInt(s string) (int64, bool) {
	s = strings.TrimSpace(s)
	neg := false
	if strings.HasPrefix(s, "(-") {
		neg = true
		s = strings.TrimSpace(strings.TrimSuffix(strings.TrimPrefix(s, "(-"), ")"))
	}
	n, err := strconv.ParseInt(s, 10, 64)
	if err != nil {
		return 0, false
	}
	if neg {
		n = -n
	}
	return n, true
}

// scripted random source
type vTape struct {
	data     []byte
	pos      int
	reads    int
	failAt   int // read index (0-based) at which to fail; -1 never
	shortAt  int // read index at which to deliver a short read without error; -1 never
	chunk    int // maximum bytes per Read call (0 = unlimited)
	filler   byte
	requests []int
}

func newTape(data []byte) *vTape { return &vTape{data: data, failAt: -1, shortAt: -1} }

func (t *vTape) Read(b []byte) (int, error) {
	idx := t.reads
	t.reads++
	if t.reads > 2000000 {
		// generators draw a bounded number of words per call for every stream the harnesses script;
		// running on means the code under test does not terminate on this stream
		panic("scripted random source: more than 2000000 reads in one harness step (non-termination on this stream?)")
	}
	t.requests = append(t.requests, len(b))
	if idx == t.failAt {
		return 0, errors.New("scripted RNG failure")
	}
	n := len(b)
	if t.chunk > 0 && n > t.chunk {
		n = t.chunk
	}
	if idx == t.shortAt && n > 1 {
		n = n / 2
	}
	for i := 0; i < n; i++ {
		if t.pos < len(t.data) {
			b[i] = t.data[t.pos]
		} else {
			b[i] = t.filler
		}
		t.pos++
	}
	return n, nil
}

func vWithTape(t io.Reader, f func()) (panicked interface{}) {
	old := rand.Reader
	rand.Reader = t
	defer func() {
		rand.Reader = old
		panicked = recover()
	}()
	f()
	return nil
}

func vWords(ws ...uint32) []byte {
	var out []byte
	for _, w := range ws {
		out = append(out, byte(w>>24), byte(w>>16), byte(w>>8), byte(w))
	}
	return out
}

type vRng struct{ s uint64 }

func (r *vRng) next() uint64 {
	r.s ^= r.s << 13
	r.s ^= r.s >> 7
	r.s ^= r.s << 17
	return r.s
}
func (r *vRng) intn(n int) int { return int(r.next() % uint64(n)) }

func vSprint(a ...interface{}) string { return fmt.Sprint(a...) }
