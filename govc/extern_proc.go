package main

// Assumed contracts for the process-level functions used by cmd/opgen (C17): os.Exit, log.Fatal*,
// fmt.Print* on standard output, package flag, ioutil.ReadFile, and the string functions whose
// results the opgen contracts name (strings.Replace / Split(",") / Fields).
//
// Process model: ghost exitcode (-1 = running), outn/outl (writes to standard output), flaghelp.
// A call that ends the process makes the function under verification "return exceptionally":
// its postconditions are checked in the exit state with unconstrained results.

import (
	"go/constant"
	"go/types"
	"strings"

	"golang.org/x/tools/go/ssa"
)

type FileData struct{ Path string }

func constStr(v ssa.Value) (string, bool) {
	if c, ok := v.(*ssa.Const); ok && c.Value != nil && c.Value.Kind() == constant.String {
		return constant.StringVal(c.Value), true
	}
	return "", false
}

// exitReturn: the process ends in state st.
func (fx *FnExec) exitReturn(st *State) {
	var res []Val
	rs := fx.fn.Signature.Results()
	for i := 0; i < rs.Len(); i++ {
		t := rs.At(i).Type()
		srt := fx.eng.sorts.sortOf(t)
		res = append(res, Val{T: fx.eng.fresh(st, "exitres", srt), S: srt, GT: t})
	}
	st.trace = append(st.trace, "<process exit>")
	fx.checkPost(st, res)
}

func (fx *FnExec) setGhost(st *State, name, term string) {
	st.ghost[name] = fx.eng.define(st, "g_"+name, fx.eng.ghosts[name], term)
}

// exitWith ends the process with the given status.
func (fx *FnExec) exitWith(st *State, code string) {
	fx.setGhost(st, "exitcode", code)
	fx.exitReturn(st)
}

// afterMayExit is called after a contract callee that may end the process: the exited case
// propagates, the caller continues in the running case.
func (fx *FnExec) afterMayExit(st *State) {
	ex := fx.eng.ghostGet(st, "exitcode")
	st2 := st.fork()
	st2.assume("(>= " + ex + " 0)")
	fx.exitReturn(st2)
	st.assume("(= " + ex + " (- 1))")
}

// variadic returns the number of variadic arguments when it is syntactically evident (-1 otherwise)
// and the term of the i-th one.
func (fx *FnExec) variadic(st *State, v ssa.Value, sl Val) (int, func(i int) string) {
	n := -1
	if s, ok := v.(*ssa.Slice); ok {
		if a, ok := s.X.(*ssa.Alloc); ok {
			if at, ok := a.Type().Underlying().(*types.Pointer).Elem().Underlying().(*types.Array); ok && s.Low == nil && s.High == nil {
				n = int(at.Len())
			}
		}
	}
	if c, ok := v.(*ssa.Const); ok && c.IsNil() {
		n = 0
	}
	anyT := types.NewInterfaceType(nil, nil)
	comp := fx.eng.regSlice(anyT)
	return n, func(i int) string {
		return sel(sel(fx.eng.heapGet(st, comp), app("sl_arr", sl.T)), app("idx", app("sl_off", sl.T), itoa(i)))
	}
}

func itoa(i int) string { return sprintf("%d", i) }

// stdoutWrite appends one write to the standard-output log.
func (fx *FnExec) stdoutWrite(st *State, text string) {
	eng := fx.eng
	n, l := eng.ghostGet(st, "outn"), eng.ghostGet(st, "outl")
	fx.setGhost(st, "outl", store(l, n, text))
	fx.setGhost(st, "outn", "(+ "+n+" 1)")
}

func (fx *FnExec) printText(st *State, in *ssa.Call, fn string, fmtArg *Val, va ssa.Value, sl Val) string {
	n, el := fx.variadic(st, va, sl)
	switch {
	case fn == "Println" && n == 1:
		return app("println1", el(0))
	case fn == "Printf" && n == 1 && fmtArg != nil:
		return app("printf1", fmtArg.T, el(0))
	case fn == "Printf" && n == 0 && fmtArg != nil:
		return app("printf0", fmtArg.T)
	}
	return fx.eng.fresh(st, "printed", SStr)
}

func isGlobalLoad(v ssa.Value, pkg, name string) bool {
	for {
		if mi, ok := v.(*ssa.MakeInterface); ok {
			v = mi.X
		} else if ci, ok := v.(*ssa.ChangeInterface); ok {
			v = ci.X
		} else {
			break
		}
	}
	u, ok := v.(*ssa.UnOp)
	if !ok {
		return false
	}
	g, ok := u.X.(*ssa.Global)
	return ok && g.Pkg != nil && g.Pkg.Pkg.Path() == pkg && g.Name() == name
}

func (fx *FnExec) externProc(st *State, in *ssa.Call, fn *ssa.Function, args []Val, k cont) bool {
	eng := fx.eng
	name := fn.String()
	strT := types.Typ[types.String]
	cargs := in.Common().Args
	if fn.Name() == "init" && fn.Pkg != nil && fn.Synthetic != "" && fn.Pkg != fx.fn.Pkg {
		fx.trust("initialisers of imported packages run before this package's and do not touch its state")
		k(st, nil)
		return true
	}
	switch name {
	case "os.Exit":
		fx.trust("extern os.Exit(c): the process ends with status c; nothing after it runs")
		fx.exitWith(st, args[0].T)
	case "log.Fatalln", "log.Fatalf", "log.Fatal":
		fx.trust("extern log.Fatal*: writes to standard error, then os.Exit(1)")
		fx.exitWith(st, "1")
	case "fmt.Println", "fmt.Printf", "fmt.Print":
		fx.trust("extern fmt.Print*: one write to standard output whose text is a function of the format and the arguments (println1/printf1); modifies no program memory")
		var text string
		if fn.Name() == "Printf" {
			text = fx.printText(st, in, "Printf", &args[0], cargs[1], args[1])
		} else {
			text = fx.printText(st, in, fn.Name(), nil, cargs[0], args[0])
		}
		fx.stdoutWrite(st, text)
		k(st, []Val{{T: eng.fresh(st, "n", SInt), S: SInt, GT: types.Typ[types.Int]}, fx.freshErr(st, false)})
	case "fmt.Fprintf", "fmt.Fprintln", "fmt.Fprint":
		switch {
		case isGlobalLoad(cargs[0], "os", "Stderr"):
			fx.trust("extern fmt.Fprint*(os.Stderr, ...): writes to standard error; modifies no program memory and not standard output")
		case isGlobalLoad(cargs[0], "os", "Stdout"):
			fx.trust("extern fmt.Fprint*(os.Stdout, ...): one write to standard output")
			fx.stdoutWrite(st, eng.fresh(st, "printed", SStr))
		default:
			fx.trust("extern fmt.Fprint*(w, ...) with an unknown writer: may write to standard output any number of times")
			st.ghost["outn"] = eng.fresh(st, "g_outn", SInt)
			st.ghost["outl"] = eng.fresh(st, "g_outl", eng.ghosts["outl"])
		}
		k(st, []Val{{T: eng.fresh(st, "n", SInt), S: SInt, GT: types.Typ[types.Int]}, fx.freshErr(st, false)})
	case "flag.Parse", "(*flag.FlagSet).Parse":
		fx.trust("extern flag: Parse of an ExitOnError flag set either ends the process itself (status 2 for a malformed or unknown flag, status 0 for -h/-help, nothing on standard output) or returns having stored the command line's values into some of the variables registered with THAT flag set; every other variable keeps its value")
		// (a) the flag package ends the process
		ex := st.fork()
		code := eng.fresh(ex, "flagexit", SInt)
		ex.assume("(or (= " + code + " 0) (= " + code + " 2))")
		fx.setGhost(ex, "flaghelp", "(= "+code+" 0)")
		fx.exitWith(ex, code)
		// (b) it returns
		if name == "flag.Parse" {
			k(st, nil)
			return true
		}
		fs := args[0]
		fset := eng.ghostGet(st, "FSET")
		for _, t := range []types.Type{types.Typ[types.Int], strT, types.Typ[types.Bool]} {
			comp := eng.regPtr(t)
			old := eng.heapGet(st, comp)
			n := eng.heapHavoc(st, comp)
			p := eng.freshName("p")
			st.assume("(forall ((" + p + " Int)) (! (=> (not (= (select " + fset + " " + p + ") " + fs.T + ")) (= (select " + n + " " + p + ") (select " + old + " " + p + "))) :pattern ((select " + n + " " + p + "))))")
		}
		// A-RES: an integer flag value above 2^32-1 is outside the resource envelope (the request exhausts memory first)
		fx.trust("A-RES: integer flag values are at most 2^32-1 (larger requests exhaust memory before anything else is observable)")
		{
			hi := eng.heapGet(st, eng.regPtr(types.Typ[types.Int]))
			p := eng.freshName("p")
			st.assume("(forall ((" + p + " Int)) (! (=> (= (select " + fset + " " + p + ") " + fs.T + ") (<= (select " + hi + " " + p + ") 4294967295)) :pattern ((select " + hi + " " + p + "))))")
		}
		k(st, []Val{fx.freshErr(st, false)})
	case "flag.NewFlagSet":
		fx.trust("extern flag.NewFlagSet: a fresh flag set")
		k(st, []Val{{T: fx.newRef(st), S: SInt, GT: in.Type()}})
	case "(*flag.FlagSet).Int", "(*flag.FlagSet).String", "(*flag.FlagSet).Bool":
		fx.trust("extern flag.FlagSet.Int/String/Bool(name, default, usage): a fresh variable holding the default, registered with the flag set under the name")
		et := in.Type().Underlying().(*types.Pointer).Elem()
		comp := eng.regPtr(et)
		ref := fx.newRef(st)
		eng.heapSet(st, comp, store(eng.heapGet(st, comp), ref, args[2].T))
		fx.setGhost(st, "FSET", store(eng.ghostGet(st, "FSET"), ref, args[0].T))
		fx.setGhost(st, "FNAME", store(eng.ghostGet(st, "FNAME"), ref, args[1].T))
		k(st, []Val{{T: ref, S: SInt, GT: in.Type()}})
	case "io/ioutil.ReadFile", "os.ReadFile":
		fx.trust("extern ReadFile(path): fails iff fileerr(path); otherwise a fresh byte slice holding the file, whose text is filetext(path)")
		comp := eng.regSlice(types.Typ[types.Uint8])
		ref := fx.newRef(st)
		na := eng.fresh(st, "filebytes", "(Array Int Int)")
		j := eng.freshName("j")
		st.assume("(forall ((" + j + " Int)) (! (and (<= 0 (select " + na + " " + j + ")) (<= (select " + na + " " + j + ") 255)) :pattern ((select " + na + " " + j + "))))")
		eng.heapSet(st, comp, store(eng.heapGet(st, comp), ref, na))
		n := eng.fresh(st, "filelen", SInt)
		st.assume("(>= " + n + " 0)")
		e := fx.freshErr(st, false)
		st.assume("(= (not (= " + e.T + " 0)) (fileerr " + args[0].T + "))")
		k(st, []Val{{T: "(mk_Slice " + ref + " 0 " + n + " " + n + ")", S: SSlice, GT: fn.Signature.Results().At(0).Type(), M: &FileData{Path: args[0].T}}, e})
	case "strings.Replace":
		o, ok1 := constStr(cargs[1])
		nw, ok2 := constStr(cargs[2])
		if !(ok1 && ok2 && o == " " && nw == "" && args[3].T == "(- 1)") {
			return false
		}
		fx.trust("extern strings.Replace(s, \" \", \"\", -1) = stripsp(s); pure")
		k(st, []Val{{T: app("stripsp", args[0].T), S: SStr, GT: strT}})
	case "strings.Split":
		sep, ok := constStr(cargs[1])
		if !ok || sep != "," {
			return false
		}
		fx.trust("extern strings.Split(s, \",\"): fresh slice of the csplitN(s) >= 1 comma-separated pieces csplitA(s); pure")
		comp := eng.regSlice(strT)
		ref := fx.newRef(st)
		eng.heapSet(st, comp, store(eng.heapGet(st, comp), ref, app("csplitA", args[0].T)))
		n := eng.define(st, "nsplit", SInt, app("csplitN", args[0].T))
		k(st, []Val{{T: "(mk_Slice " + ref + " 0 " + n + " " + n + ")", S: SSlice, GT: in.Type()}})
	case "strings.Fields":
		fx.trust("extern strings.Fields(s): fresh slice of the fieldsN(s) >= 0 whitespace-separated words fieldsA(s); pure")
		comp := eng.regSlice(strT)
		ref := fx.newRef(st)
		eng.heapSet(st, comp, store(eng.heapGet(st, comp), ref, app("fieldsA", args[0].T)))
		n := eng.define(st, "nfields", SInt, app("fieldsN", args[0].T))
		k(st, []Val{{T: "(mk_Slice " + ref + " 0 " + n + " " + n + ")", S: SSlice, GT: in.Type()}})
	default:
		return false
	}
	return true
}

// procTouch: frame information of the externs above.
func (eng *Engine) procTouch(fn *ssa.Function, t map[string]bool) {
	switch fn.String() {
	case "os.Exit", "log.Fatalln", "log.Fatalf", "log.Fatal":
		t["ghost:exitcode"] = true
	case "fmt.Println", "fmt.Printf", "fmt.Print", "fmt.Fprintf", "fmt.Fprintln", "fmt.Fprint":
		t["ghost:outn"], t["ghost:outl"], t["ghost:emitted"] = true, true, true
	case "flag.Parse", "(*flag.FlagSet).Parse":
		t["ghost:exitcode"], t["ghost:flaghelp"] = true, true
		if strings.HasPrefix(fn.String(), "(*") {
			for _, ty := range []types.Type{types.Typ[types.Int], types.Typ[types.String], types.Typ[types.Bool]} {
				t[eng.regPtr(ty)] = true
			}
		}
	case "flag.NewFlagSet":
		t["@alloc"] = true
	case "(*flag.FlagSet).Int", "(*flag.FlagSet).String", "(*flag.FlagSet).Bool":
		t["@alloc"], t["ghost:FSET"], t["ghost:FNAME"] = true, true, true
		for _, ty := range []types.Type{types.Typ[types.Int], types.Typ[types.String], types.Typ[types.Bool]} {
			t[eng.regPtr(ty)] = true
		}
	}
}
