package main

// Calls: builtins, contract application, inlining, closures, and the assumed
// contracts ("native models") of dependencies.

import (
	"fmt"
	"go/types"
	"sort"
	"strings"

	"golang.org/x/tools/go/ssa"
)

func (fx *FnExec) doCall(st *State, in *ssa.Call, k cont, depth int) {
	c := in.Common()
	var args []Val
	argv := func() []Val {
		if args == nil {
			for _, a := range c.Args {
				if l, ok := st.locs[a]; ok {
					_ = l
					fx.unsupp("address passed as argument to %s", c.Value)
				}
				args = append(args, fx.val(st, a))
			}
		}
		return args
	}
	if fx.fc != nil && len(fx.fc.CallGhosts) > 0 && (in.Parent() == fx.fn || fx.eng.contractOf(in.Parent()) == nil) {
		k0 := k
		var rcv *Val
		if c.IsInvoke() {
			r := fx.val(st, c.Value)
			rcv = &r
		}
		k = func(s *State, res []Val) {
			fx.callGhosts(s, in, rcv, res)
			k0(s, res)
		}
	}
	if c.IsInvoke() {
		recv := fx.val(st, c.Value)
		fx.invoke(st, in, recv, c.Method, argv(), k, depth)
		return
	}
	switch callee := c.Value.(type) {
	case *ssa.Builtin:
		fx.builtin(st, in, callee, k)
		return
	case *ssa.Function:
		fx.callFunc(st, in, callee, argv(), nil, k, depth)
		return
	case *ssa.MakeClosure:
		cl := fx.val(st, callee).M.(*Closure)
		fx.callFunc(st, in, cl.Fn, argv(), cl, k, depth)
		return
	}
	fv := fx.val(st, c.Value)
	if cl, ok := fv.M.(*Closure); ok {
		fx.callFunc(st, in, cl.Fn, argv(), cl, k, depth)
		return
	}
	// unknown function value: only the type contract of SFFunction is available
	if named, ok := c.Value.Type().(*types.Named); ok && named.Obj().Name() == "SFFunction" {
		fx.safety(st, "nil", fx.siteName(in)+".funcvalue", "(not (= "+fv.T+" 0))")
		fx.unknownSF(st, fv, k)
		return
	}
	if sig, ok := c.Value.Type().Underlying().(*types.Signature); ok && sig.Params().Len() == 0 && sig.Results().Len() == 2 {
		if b, ok := sig.Results().At(0).Type().Underlying().(*types.Basic); ok && b.Kind() == types.String {
			fx.safety(st, "nil", fx.siteName(in)+".funcvalue", "(not (= "+fv.T+" 0))")
			fx.unknownSF(st, fv, k)
			return
		}
	}
	fx.unsupp("call through unknown function value %s", c.Value)
}

// unknownSF applies the type contract A-SF of a user-supplied separator function.
func (fx *FnExec) unknownSF(st *State, fv Val, k cont) {
	eng := fx.eng
	eng.assumptions["A-SF: a separator function of unknown origin returns some (string, entropy), its entropy depends on the function value only, it may consume randomness, and it modifies no memory reachable from spg values"] = true
	calls := eng.ghostGet(st, "sfcalls")
	sep := eng.fresh(st, "sep", SStr)
	st.assume("(= " + sep + " (sepval " + fv.T + " " + calls + "))")
	ent := eng.fresh(st, "sepent", SReal)
	st.assume("(= " + ent + " (sfent " + fv.T + "))")
	st.ghost["sfcalls"] = eng.define(st, "sfcalls", SInt, "(+ "+calls+" 1)")
	for _, g := range []string{"pos", "ctr"} {
		old := eng.ghostGet(st, g)
		n := eng.fresh(st, "g_"+g, SInt)
		st.assume("(>= " + n + " " + old + ")")
		st.ghost[g] = n
	}
	na := eng.fresh(st, "alloc", SInt)
	st.assume("(>= " + na + " " + st.alloc + ")")
	st.alloc = na
	k(st, []Val{{T: sep, S: SStr, GT: types.Typ[types.String]}, {T: ent, S: SReal}})
}

func (fx *FnExec) builtin(st *State, in *ssa.Call, b *ssa.Builtin, k cont) {
	eng := fx.eng
	c := in.Common()
	switch b.Name() {
	case "len":
		v := fx.val(st, c.Args[0])
		r := fx.lenOf(st, v)
		r.GT = types.Typ[types.Int]
		k(st, []Val{r})
	case "cap":
		v := fx.val(st, c.Args[0])
		k(st, []Val{{T: app("sl_cap", v.T), S: SInt, GT: types.Typ[types.Int]}})
	case "append":
		s := fx.val(st, c.Args[0])
		x := fx.val(st, c.Args[1])
		et := in.Type().Underlying().(*types.Slice).Elem()
		comp := eng.regSlice(et)
		es := eng.sorts.sortOf(et)
		h := eng.heapGet(st, comp)
		// only single-element appends are modelled (the appended slice must have length 1)
		fx.safety(st, "subset", fx.siteName(in)+".append-one", "(= "+app("sl_len", x.T)+" 1)")
		x0 := sel(sel(h, app("sl_arr", x.T)), app("idx", app("sl_off", x.T), "0"))
		ln, cp, ar, of := app("sl_len", s.T), app("sl_cap", s.T), app("sl_arr", s.T), app("sl_off", s.T)
		inplace := "(< " + ln + " " + cp + ")"
		if fx.fc != nil && fx.entry != nil && !eng.freshIn(c.Args[0], func(*ssa.BasicBlock) bool { return true }, map[ssa.Value]bool{}) {
			// an in-place append writes into an array the caller may see
			fx.emit(st, &Obligation{Kind: "frame", Name: fx.siteName(in) + ".append", Props: []string{"C14", "C15"},
				Goal: implies(inplace, "(> "+ar+" "+fx.entry.alloc+")")})
		}
		// in place
		hIn := store(h, ar, store(sel(h, ar), app("idx", of, ln), x0))
		// reallocation
		ref := fx.newRef(st)
		na := eng.fresh(st, "newarr", "(Array Int "+es+")")
		j := eng.freshName("j")
		st.assume("(forall ((" + j + " Int)) (! (=> (and (<= 0 " + j + ") (< " + j + " " + ln + ")) (= (select " + na + " (idx 0 " + j + ")) (select (select " + h + " " + ar + ") (idx " + of + " " + j + ")))) :pattern ((select " + na + " (idx 0 " + j + ")))))")
		st.assume("(= (select " + na + " (idx 0 " + ln + ")) " + x0 + ")")
		ncap := eng.fresh(st, "newcap", SInt)
		st.assume("(> " + ncap + " " + ln + ")")
		hRe := store(h, ref, na)
		eng.heapSet(st, comp, ite(inplace, hIn, hRe))
		res := fmt.Sprintf("(ite %s (mk_Slice %s %s (+ %s 1) %s) (mk_Slice %s 0 (+ %s 1) %s))", inplace, ar, of, ln, cp, ref, ln, ncap)
		res = eng.define(st, in.Name(), SSlice, res)
		// consequences of the model above, stated directly so that proofs about the contents of
		// the result need no case split on whether the append reallocated
		h2 := eng.heapGet(st, comp)
		j2 := eng.freshName("j")
		st.assume("(forall ((" + j2 + " Int)) (! (=> (and (<= 0 " + j2 + ") (< " + j2 + " " + ln + ")) (= (select (select " + h2 + " (sl_arr " + res + ")) (idx (sl_off " + res + ") " + j2 + ")) (select (select " + h + " " + ar + ") (idx " + of + " " + j2 + ")))) :pattern ((select (select " + h2 + " (sl_arr " + res + ")) (idx (sl_off " + res + ") " + j2 + ")))))")
		st.assume("(= (select (select " + h2 + " (sl_arr " + res + ")) (idx (sl_off " + res + ") " + ln + ")) " + x0 + ")")
		st.assume("(= (sl_len " + res + ") (+ " + ln + " 1))")
		k(st, []Val{{T: res, S: SSlice, GT: in.Type()}})
	case "delete":
		m := fx.val(st, c.Args[0])
		key := fx.val(st, c.Args[1])
		mt := c.Args[0].Type().Underlying().(*types.Map)
		eng.regMap(mt)
		if !eng.freshIn(c.Args[0], func(*ssa.BasicBlock) bool { return true }, map[ssa.Value]bool{}) {
			fx.frameCheck(st, in, m.T, nil)
		}
		fx.mapDelete(st, mt, m.T, key.T)
		k(st, nil)
	default:
		fx.unsupp("builtin %s", b.Name())
	}
}

func (fx *FnExec) callFunc(st *State, in *ssa.Call, fn *ssa.Function, args []Val, cl *Closure, k cont, depth int) {
	eng := fx.eng
	if len(fn.Blocks) == 0 || fn.Pkg == nil && fn.Parent() == nil || !eng.ours(fn) || (fn.Name() == "init" && fn.Synthetic != "" && fn.Pkg != fx.fn.Pkg) {
		fx.extern(st, in, fn, args, k)
		return
	}
	fc := eng.contractOf(fn)
	if fc != nil && !fc.Inline && fn != fx.fn || fc != nil && fn == fx.fn {
		if cl != nil && len(cl.Bindings) > 0 {
			fx.unsupp("contract on closure with free variables: %s", fn)
		}
		fx.applyContract(st, in, fn, fc, args, k)
		return
	}
	// inline
	if cl != nil {
		for i, fv := range fn.FreeVars {
			if cl.BindLocs != nil && cl.BindLocs[i] != nil {
				st.locs[fv] = cl.BindLocs[i]
			} else if cl.BindVals != nil {
				st.vals[fv] = cl.BindVals[i]
			}
		}
	}
	// save caller's view of callee-local values is unnecessary: SSA values are per function;
	// recursion is excluded by the depth limit.
	st.callStack = append(append([]*ssa.Call{}, st.callStack...), in)
	kPop := func(s *State, res []Val) {
		if n := len(s.callStack); n > 0 {
			s.callStack = s.callStack[:n-1]
		}
		k(s, res)
	}
	fx.runFunc(st, fn, args, kPop, depth+1)
}

func (eng *Engine) ours(fn *ssa.Function) bool {
	f := fn
	for f.Parent() != nil {
		f = f.Parent()
	}
	if f.Pkg == nil {
		return false
	}
	_, ok := eng.spkg[f.Pkg.Pkg.Name()]
	return ok && eng.spkg[f.Pkg.Pkg.Name()] == f.Pkg
}

// applyContract: check requires, havoc the frame, assume ensures.
func (fx *FnExec) applyContract(st *State, in *ssa.Call, fn *ssa.Function, fc *FuncContract, args []Val, k cont) {
	eng := fx.eng
	pre := st.fork()
	env := &Env{fx: fx, cur: st, old: st, vars: map[string]Val{}, fc: fc}
	if fn.Pkg != nil {
		env.pkg = fn.Pkg.Pkg
	}
	for i, p := range fn.Params {
		env.vars[p.Name()] = args[i]
	}
	for old, news := range eng.renamesOf(fn) {
		if _, have := env.vars[old]; !have {
			for _, nn := range news {
				if v, ok := env.vars[nn]; ok {
					env.vars[old] = v
				}
			}
		}
	}
	site := fx.siteName(in)
	trc := func(e *Env, c *Clause) (string, bool) {
		f, err := fx.safeTr(e, c)
		if err != nil {
			fx.bindFail(c, err)
			return "", false
		}
		return f, true
	}
	for _, c := range fc.Requires {
		if f, ok := trc(env, c); ok {
			if c.Kind == "assume" {
				continue
			}
			fx.emit(st, &Obligation{Kind: "pre", Name: site + ":" + c.Name, Props: c.Props, Goal: f})
			st.assume(f)
		}
	}
	for _, c := range fc.Panics {
		if f, ok := trc(env, c); ok {
			fx.emit(st, &Obligation{Kind: "pre", Name: site + ":nopanic." + c.Name, Props: c.Props, Goal: not(f), Safety: true})
			st.assume(not(f))
		}
	}
	for _, c := range fc.Raises {
		if f, ok := trc(env, c); ok {
			// the fault propagates as a panic of the caller (nobody recovers: checked by the effects engine)
			st.assume(not(f))
		}
	}
	// frame
	touch := eng.touchFunc(fn)
	names := make([]string, 0, len(touch))
	for c := range touch {
		names = append(names, c)
	}
	sort.Strings(names)
	// written locations named in modifies: "r.f" with r a pointer parameter
	type wr struct {
		ref    string
		fields map[int]bool
		t      types.Type
	}
	writes := map[string][]wr{}
	for _, m := range fc.Modifies {
		if _, isGhost := eng.ghosts[m]; isGhost {
			continue
		}
		parts := strings.Split(m, ".")
		pv, ok := env.vars[parts[0]]
		if !ok {
			fx.unsupp("modifies clause %q of %s: unknown root", m, fc.Key)
		}
		et, ok := derefType(pv.GT)
		if !ok {
			fx.unsupp("modifies clause %q: root is not a pointer", m)
		}
		comp := eng.regPtr(et)
		w := wr{ref: pv.T, fields: map[int]bool{}, t: et}
		if len(parts) == 2 {
			stt := et.Underlying().(*types.Struct)
			for i := 0; i < stt.NumFields(); i++ {
				if stt.Field(i).Name() == parts[1] {
					w.fields[i] = true
				}
			}
		}
		// merge with an existing entry for the same ref
		merged := false
		for i := range writes[comp] {
			if writes[comp][i].ref == w.ref {
				for f := range w.fields {
					writes[comp][i].fields[f] = true
				}
				merged = true
			}
		}
		if !merged {
			writes[comp] = append(writes[comp], w)
		}
	}
	oldAlloc := st.alloc
	dirtyCallee := eng.dirtyFunc(fn)
	if touch["@alloc"] {
		na := eng.fresh(st, "alloc", SInt)
		st.assume("(>= " + na + " " + st.alloc + ")")
		st.alloc = na
	}
	for _, c := range names {
		switch {
		case c == "@alloc":
		case strings.HasPrefix(c, "ghost:"):
			g := strings.TrimPrefix(c, "ghost:")
			st.ghost[g] = eng.fresh(st, "g_"+g, eng.ghosts[g])
		default:
			if _, ok := eng.compSort[c]; !ok {
				continue
			}
			old := eng.heapGet(st, c)
			n := eng.heapHavoc(st, c)
			p := eng.freshName("p")
			cond := "(<= " + p + " " + oldAlloc + ")"
			if dirtyCallee[c] && len(writes[c]) == 0 && !fc.Trusted {
				// the callee may write existing objects of this component and its contract does not say which: no frame
				continue
			}
			for _, w := range writes[c] {
				cond = and(cond, not("(= "+p+" "+w.ref+")"))
			}
			st.assume("(forall ((" + p + " Int)) (! (=> " + cond + " (= (select " + n + " " + p + ") (select " + old + " " + p + "))) :pattern ((select " + n + " " + p + "))))")
			for _, w := range writes[c] {
				if len(w.fields) == 0 {
					continue
				}
				si := eng.sorts.structOf(w.t)
				for i, f := range si.Fields {
					if !w.fields[i] {
						st.assume("(= " + app(f, sel(n, w.ref)) + " " + app(f, sel(old, w.ref)) + ")")
					}
				}
			}
		}
	}
	for _, g := range fc.Modifies {
		if srt, isGhost := eng.ghosts[g]; isGhost {
			st.ghost[g] = eng.fresh(st, "g_"+g, srt)
		}
	}
	// results
	var res []Val
	rs := fn.Signature.Results()
	for i := 0; i < rs.Len(); i++ {
		t := rs.At(i).Type()
		srt := eng.sorts.sortOf(t)
		n := eng.fresh(st, "ret_"+fn.Name(), srt)
		v := Val{T: n, S: srt, GT: t}
		st.assume(eng.sorts.typeInv(t, n))
		st.assume(fx.allocatedInv(st, v))
		res = append(res, v)
	}
	// the callee's function-local ghosts are existentially quantified for the caller
	for _, g := range fc.Ghosts {
		key := "fg:" + fc.Key + ":" + g
		pre.ghost[key] = eng.fresh(st, "ghostpre_"+g, fc.ghostSort(g))
		st.ghost[key] = eng.fresh(st, "ghostres_"+g, fc.ghostSort(g))
	}
	post := &Env{fx: fx, cur: st, old: pre, vars: map[string]Val{}, pkg: env.pkg, fc: fc}
	for kx, v := range env.vars {
		post.vars[kx] = v
	}
	for i, r := range res {
		post.vars[fmt.Sprintf("res%d", i)] = r
		if i == 0 {
			post.vars["res"] = r
		}
		if n := rs.At(i).Name(); n != "" && n != "_" {
			post.vars[n] = r
		}
		if i == rs.Len()-1 && types.Identical(rs.At(i).Type(), types.Universe.Lookup("error").Type()) {
			post.vars["err"] = r
		}
	}
	for _, c := range fc.Ensures {
		if f, ok := trc(post, c); ok {
			if c.Trusted || fc.Trusted {
				eng.assumptions["TRUSTED postcondition "+c.Func+"/"+c.Name+": assumed by callers, not proved from the body (see the bounded check of that function)"] = true
			}
			st.assume(f)
		}
	}
	if touch["ghost:exitcode"] {
		fx.afterMayExit(st)
	}
	k(st, res)
}

// ---------- touch sets (inferred frames) ----------

func (eng *Engine) touchFunc(fn *ssa.Function) map[string]bool {
	if t, ok := eng.touchCache[fn]; ok {
		return t
	}
	if eng.touchBusy[fn] {
		return map[string]bool{}
	}
	eng.touchBusy[fn] = true
	t := map[string]bool{}
	if len(fn.Blocks) == 0 || !eng.ours(fn) {
		eng.externTouch(fn, t)
	} else {
		for _, b := range fn.Blocks {
			eng.touchBlock(b, t)
		}
		if fc := eng.contractOf(fn); fc != nil {
			for _, m := range fc.Modifies {
				if _, ok := eng.ghosts[m]; ok {
					t["ghost:"+m] = true
				}
			}
		}
	}
	delete(eng.touchBusy, fn)
	eng.touchCache[fn] = t
	return t
}

func (eng *Engine) addrComp(v ssa.Value, t map[string]bool) {
	switch a := v.(type) {
	case *ssa.FieldAddr:
		eng.addrComp(a.X, t)
	case *ssa.IndexAddr:
		switch xt := a.X.Type().Underlying().(type) {
		case *types.Slice:
			t[eng.regSlice(xt.Elem())] = true
		case *types.Pointer:
			if at, ok := xt.Elem().Underlying().(*types.Array); ok {
				t[eng.regSlice(at.Elem())] = true
			}
		}
	default:
		if et, ok := derefType(v.Type()); ok {
			if at, isArr := et.Underlying().(*types.Array); isArr {
				t[eng.regSlice(at.Elem())] = true
			} else {
				t[eng.regPtr(et)] = true
			}
		}
	}
}

func (eng *Engine) touchBlock(b *ssa.BasicBlock, t map[string]bool) {
	for _, in := range b.Instrs {
		switch in := in.(type) {
		case *ssa.Store:
			eng.addrComp(in.Addr, t)
		case *ssa.Alloc:
			t["@alloc"] = true
			eng.addrComp(in, t)
		case *ssa.MakeSlice:
			t["@alloc"] = true
			t[eng.regSlice(in.Type().Underlying().(*types.Slice).Elem())] = true
		case *ssa.MakeMap:
			t["@alloc"] = true
			mt := in.Type().Underlying().(*types.Map)
			eng.regMap(mt)
			t[mapDom(mt)], t[mapVal(mt)], t[mapLen] = true, true, true
		case *ssa.MakeClosure:
			t["@alloc"] = true
		case *ssa.MapUpdate:
			mt := in.Map.Type().Underlying().(*types.Map)
			eng.regMap(mt)
			t[mapDom(mt)], t[mapVal(mt)], t[mapLen] = true, true, true
		case *ssa.Call:
			c := in.Common()
			if c.IsInvoke() {
				eng.invokeTouch(c, t)
				continue
			}
			switch callee := c.Value.(type) {
			case *ssa.Builtin:
				switch callee.Name() {
				case "append":
					t["@alloc"] = true
					t[eng.regSlice(in.Type().Underlying().(*types.Slice).Elem())] = true
				case "delete":
					mt := c.Args[0].Type().Underlying().(*types.Map)
					eng.regMap(mt)
					t[mapDom(mt)], t[mapVal(mt)], t[mapLen] = true, true, true
				}
			case *ssa.Function:
				toStderr := strings.HasPrefix(callee.String(), "fmt.Fprint") && len(c.Args) > 0 && isGlobalLoad(c.Args[0], "os", "Stderr")
				for k := range eng.touchFunc(callee) {
					if toStderr && (k == "ghost:outn" || k == "ghost:outl") {
						continue // a write to standard error is not a write to standard output
					}
					t[k] = true
				}
			case *ssa.MakeClosure:
				for k := range eng.touchFunc(callee.Fn.(*ssa.Function)) {
					t[k] = true
				}
			default:
				// a function value that cannot be a separator function (A-SF covers func() (string, ...) only):
				// type-based call graph - every function or function literal of the loaded packages with an
				// identical signature may be the callee
				if sig, ok := c.Value.Type().Underlying().(*types.Signature); ok && !sfShaped(sig) {
					t["@alloc"] = true
					for _, f := range eng.funcsWithSig(sig) {
						for k := range eng.touchFunc(f) {
							t[k] = true
						}
					}
					continue
				}
				// function value: closures created in this function, plus the A-SF contract
				for _, bb := range b.Parent().Blocks {
					for _, x := range bb.Instrs {
						if mc, ok := x.(*ssa.MakeClosure); ok {
							for k := range eng.touchFunc(mc.Fn.(*ssa.Function)) {
								t[k] = true
							}
						}
					}
				}
				t["ghost:pos"], t["ghost:ctr"], t["ghost:sfcalls"], t["@alloc"] = true, true, true, true
			}
		}
	}
}

func (eng *Engine) invokeTouch(c *ssa.CallCommon, t map[string]bool) {
	rt := c.Value.Type().String()
	switch {
	case strings.HasSuffix(rt, "golang-set.Set"):
		eng.regSet()
		switch c.Method.Name() {
		case "Add", "Union", "Difference", "Clone", "Intersect":
			t[setHeap] = true
			t["@alloc"] = true
		case "Iter":
			t["@alloc"] = true
		}
	case rt == "error":
	default:
		// interface call into spg (opgen: spg.Generator): union over implementations
		if iface, ok := c.Value.Type().Underlying().(*types.Interface); ok {
			for _, sp := range eng.spkg {
				for _, m := range sp.Members {
					tn, ok := m.(*ssa.Type)
					if !ok {
						continue
					}
					for _, T := range []types.Type{tn.Type(), types.NewPointer(tn.Type())} {
						if types.Implements(T, iface) {
							if f := eng.prog.LookupMethod(T, c.Method.Pkg(), c.Method.Name()); f != nil {
								for k := range eng.touchFunc(f) {
									t[k] = true
								}
							}
						}
					}
				}
			}
		}
	}
}

func (eng *Engine) externTouch(fn *ssa.Function, t map[string]bool) {
	eng.procTouch(fn, t)
	switch fn.String() {
	case "crypto/rand.Read":
		t["ghost:pos"] = true
		t[eng.regSlice(types.Typ[types.Uint8])] = true
	case "sort.Strings":
		t[eng.regSlice(types.Typ[types.String])] = true
	case "strings.Split", "strings.Fields":
		t["@alloc"] = true
		t[eng.regSlice(types.Typ[types.String])] = true
	case "fmt.Errorf", "fmt.Sprintf", "github.com/deckarep/golang-set.NewSet":
		t["@alloc"] = true
		if strings.HasSuffix(fn.String(), "NewSet") {
			eng.regSet()
			t[setHeap] = true
		}
	case "math/big.NewFloat", "(*math/big.Float).SetInt", "(*math/big.Float).MantExp":
		eng.regBig()
		t["@alloc"] = true
		t[bigFHeap] = true
	case "log.Println", "log.Printf":
		t["ghost:emitted"] = true
	case "io/ioutil.ReadFile", "os.ReadFile":
		t["@alloc"] = true
		t[eng.regSlice(types.Typ[types.Uint8])] = true
	}
}

// sfShaped: the signature of a separator function, func() (string, <entropy>).
func sfShaped(sig *types.Signature) bool {
	if sig.Params().Len() != 0 || sig.Results().Len() != 2 {
		return false
	}
	b, ok := sig.Results().At(0).Type().Underlying().(*types.Basic)
	return ok && b.Kind() == types.String
}

// funcsWithSig: all functions and function literals of the verified packages whose signature is identical to sig
// (receivers excluded: a method value would appear as a bound-method closure, which this code base does not create).
func (eng *Engine) funcsWithSig(sig *types.Signature) []*ssa.Function {
	var out []*ssa.Function
	var visit func(f *ssa.Function)
	visit = func(f *ssa.Function) {
		if f.Signature.Recv() == nil && types.Identical(f.Signature, sig) {
			out = append(out, f)
		}
		for _, a := range f.AnonFuncs {
			visit(a)
		}
	}
	for _, sp := range eng.spkg {
		for _, m := range sp.Members {
			if f, ok := m.(*ssa.Function); ok {
				visit(f)
			}
			if tn, ok := m.(*ssa.Type); ok {
				for _, T := range []types.Type{tn.Type(), types.NewPointer(tn.Type())} {
					ms := eng.prog.MethodSets.MethodSet(T)
					for i := 0; i < ms.Len(); i++ {
						if f := eng.prog.MethodValue(ms.At(i)); f != nil && eng.ours(f) {
							for _, a := range f.AnonFuncs {
								visit(a)
							}
						}
					}
				}
			}
		}
	}
	return out
}
