package main

// The per-property check: generate obligations from /repo's current tree, discharge
// them, triage failures (replay on the real code), write evidence, print verdict lines.

import (
	"encoding/json"
	"flag"
	"fmt"
	"os"
	"os/exec"
	"path/filepath"
	"sort"
	"strconv"
	"strings"
	"time"
)

type PropConfig struct {
	Funcs   []string `json:"funcs"`   // functions whose obligations decide the property
	Lemmas  []string `json:"lemmas"`  // spec lemmas
	Engines []string `json:"engines"` // extra engines: "effects:<rule>", "ground", "bounded:<name>"
	Safety  bool     `json:"safety"`  // the property claims absence of panics: safety obligations count
	Replay  string   `json:"replay"`  // harness name under /verif/replay
	Level   string   `json:"level"`   // evidence level
	Trusted []string `json:"trusted"` // extra trusted-base entries (paper theorems)
	Explain string   `json:"explain"`
}

type KnownFinding struct {
	Property   string `json:"property"`
	Obligation string `json:"obligation"`
	Status     string `json:"status"` // open | fixed
	Commit     string `json:"commit,omitempty"`
	What       string `json:"what"`
	Match      string `json:"match,omitempty"` // substring of the failing input identifying the class
}

type Finding struct {
	Obligation string            `json:"obligation"`
	Property   string            `json:"property"`
	Result     string            `json:"solver_result"`
	Solver     string            `json:"solver"`
	Model      map[string]string `json:"model,omitempty"`
	SolverOut  string            `json:"solver_output"`
	QueryFile  string            `json:"query_file"`
	Trace      []string          `json:"path,omitempty"`
	Replayed   bool              `json:"replayed_on_real_code"`
	Confirmed  bool              `json:"confirmed"`
	Input      interface{}       `json:"failing_input,omitempty"`
	Observed   string            `json:"observed,omitempty"`
	Required   string            `json:"required,omitempty"`
	ReplayLog  string            `json:"replay_log,omitempty"`
}

func runCheck(args []string) int {
	fs := flag.NewFlagSet("check", flag.ExitOnError)
	repo := fs.String("repo", "/repo", "")
	verif := fs.String("verif", "/verif", "")
	tier := fs.String("tier", "quick", "")
	replay := fs.String("replay", "", "re-run a recorded replay file")
	noEvidence := fs.Bool("no-evidence", false, "do not write evidence (selftest on scratch copies)")
	if len(args) < 1 {
		fmt.Println("usage: govc check <property> [--tier quick|thorough] [--repo dir] [--replay file]")
		return 2
	}
	prop := args[0]
	fs.Parse(args[1:])
	if t := os.Getenv("VERIF_TIER"); t != "" && *tier == "quick" {
		*tier = t
	}
	seed := 1
	if s := os.Getenv("VERIF_SEED"); s != "" {
		if n, err := strconv.Atoi(s); err == nil {
			seed = n
		}
	}
	t0 := time.Now()
	specDir := filepath.Join(*verif, "spec")
	var cfgs map[string]*PropConfig
	b, err := os.ReadFile(filepath.Join(specDir, "properties.json"))
	if err != nil {
		fmt.Println("cannot read property configuration:", err)
		return 2
	}
	if err := json.Unmarshal(b, &cfgs); err != nil {
		fmt.Println("bad properties.json:", err)
		return 2
	}
	cfg := cfgs[prop]
	if cfg == nil {
		fmt.Println("property", prop, "has no check (see MANIFEST not_applicable)")
		return 2
	}
	if *replay != "" {
		return runReplayFile(*verif, *repo, prop, cfg, *replay)
	}
	eng, err := newEngine(*repo, specDir)
	if err != nil {
		// the tree does not load (does not compile): nothing can be decided
		fmt.Println("ENGINE-ERROR:", err)
		return 2
	}
	eng.tier = *tier
	timeout := 15
	if *tier == "thorough" {
		timeout = 60
	}
	for _, k := range cfg.Funcs {
		eng.verifyFunc(k)
	}
	// lemmas
	var lemmaObs []*Obligation
	for _, ln := range cfg.Lemmas {
		var lm *Lemma
		for _, l := range eng.prelude.Lemmas {
			if l.Name == ln {
				lm = l
			}
		}
		if lm == nil {
			fmt.Println("unknown lemma", ln)
			return 2
		}
		lemmaObs = append(lemmaObs, &Obligation{Func: "spec", Kind: "lemma", Name: lm.Name, Props: lm.Props, Where: lm.Descr})
	}
	outDir := filepath.Join(*verif, "out", prop+os.Getenv("VERIF_OUT_TAG")) // the tag keeps parallel selftest workers apart
	os.RemoveAll(outDir)
	eng.solveAll(outDir, timeout, 16)
	solveLemmas(eng, lemmaObs, outDir, map[bool]int{false: timeout * 4, true: timeout * 2}[*tier == "thorough"], *tier == "thorough") // spec lemmas (nonlinear arithmetic) get generous time: they change only when the spec files do
	all := append(append([]*Obligation{}, eng.obligs...), lemmaObs...)

	// extra engines
	var extra []*Obligation
	extraCov := map[string]interface{}{}
	for _, e := range cfg.Engines {
		obs, cov, err := runExtraEngine(eng, e, prop, *tier, seed, *verif, *repo)
		if err != nil {
			fmt.Println("ENGINE-ERROR:", e, err)
			return 2
		}
		extra = append(extra, obs...)
		for k, v := range cov {
			extraCov[k] = v
		}
	}
	// thorough tier: the property's replay harness is also run as a search over the real code
	// (bounded exploration on top of the discharged obligations; a hit is a concrete failing input)
	if (*tier == "thorough" || os.Getenv("VERIF_SEARCH") == "1") && cfg.Replay != "" {
		already := false
		for _, e := range cfg.Engines {
			if e == "bounded:"+cfg.Replay {
				already = true
			}
		}
		if !already {
			hits, log, err := runHarness(*verif, *repo, cfg.Replay, replayReq{Property: prop, Tier: *tier, Seed: seed})
			o := &Obligation{Func: "spg", Kind: "bounded", Name: "search/" + cfg.Replay, Props: []string{prop}, Solver: "bounded"}
			switch {
			case err != nil:
				o.Result, o.Raw = "unknown", err.Error()
			case len(hits) > 0:
				o.Result, o.Raw = "violated", hits[0].Observed
				o.Input, o.Observed, o.Required = hits[0].Input, hits[0].Observed, hits[0].Required
			case strings.Contains(log, "\nok ") || strings.HasPrefix(log, "ok "):
				o.Result = "holds"
			default:
				o.Result, o.Raw = "unknown", "search harness did not complete: "+trunc(log, 1500)
			}
			extra = append(extra, o)
			extraCov["search_harness"] = map[string]interface{}{"harness": cfg.Replay, "tier": *tier, "hits": len(hits), "note": "bounded search by execution of the real code on top of the discharged obligations; not counted as proved"}
		}
	}
	all = append(all, extra...)

	// group by obligation id
	type group struct {
		id   string
		obs  []*Obligation
		ok   bool
		tmax float64
	}
	groups := map[string]*group{}
	var order []string
	relevant := func(o *Obligation) bool {
		if o.Canary || o.Func == "spec" {
			return true
		}
		switch o.Kind {
		case "subset", "bind", "effects", "frame", "secrecy", "ground", "bounded":
			return true
		case "inv-init", "inv-preserve":
			// every postcondition of the function is proved from all of its loop invariants
			return true
		}
		if o.Safety {
			return cfg.Safety
		}
		if len(o.Props) == 0 {
			return true
		}
		for _, p := range o.Props {
			if p == prop {
				return true
			}
		}
		return false
	}
	nOther := 0
	for _, o := range all {
		if !relevant(o) {
			nOther++
			continue
		}
		g := groups[o.ID()]
		if g == nil {
			g = &group{id: o.ID(), ok: true}
			groups[o.ID()] = g
			order = append(order, o.ID())
		}
		g.obs = append(g.obs, o)
		good := o.Result == "unsat" || o.Result == "holds"
		if o.Canary {
			// a canary point may be unreachable on some paths; it must be reachable on one
			if len(g.obs) == 1 {
				g.ok = false
			}
			if o.Result != "unsat" {
				g.ok = true
			}
			good = true
		}
		if !good {
			g.ok = false
		}
		if o.Time > g.tmax {
			g.tmax = o.Time
		}
	}
	nObl, nDis, nCanary := 0, 0, 0
	byBackend := map[string]int{}
	var solverTime float64
	var samples []map[string]interface{}
	var failed []*group
	for _, id := range order {
		g := groups[id]
		if g.obs[0].Canary {
			nCanary++
			if !g.ok {
				failed = append(failed, g)
			}
			continue
		}
		nObl++
		if g.ok {
			nDis++
		} else {
			failed = append(failed, g)
		}
		for _, o := range g.obs {
			byBackend[o.Solver]++
			solverTime += o.Time
		}
		if len(samples) < 12 && g.ok {
			samples = append(samples, map[string]interface{}{"obligation": id, "queries": len(g.obs), "backend": g.obs[0].Solver, "max_time_s": round3(g.tmax), "properties": g.obs[0].Props})
		}
	}

	// expected obligations: posts and lemmas recorded for the unchanged tree must still be generated
	expFile := filepath.Join(specDir, "expected", prop+".json")
	var expected []string
	if eb, err := os.ReadFile(expFile); err == nil {
		json.Unmarshal(eb, &expected)
	}
	var missing []string
	for _, id := range expected {
		if _, ok := groups[id]; !ok {
			missing = append(missing, id)
		}
	}
	if os.Getenv("VERIF_RECORD_EXPECTED") == "1" && len(failed) == 0 {
		var ids []string
		for _, id := range order {
			if !groups[id].obs[0].Canary {
				k := groups[id].obs[0].Kind
				// only obligations that come from contract clauses or spec files can go stale; frame/effects/secrecy
				// obligations are derived from the code on every run and are named by instruction sites
				if k == "post" || k == "lemma" || k == "panic-must" || k == "ground" {
					ids = append(ids, id)
				}
			}
		}
		sort.Strings(ids)
		eng.recordLocals(specDir, cfg.Funcs)
		os.MkdirAll(filepath.Dir(expFile), 0o755)
		jb, _ := json.MarshalIndent(ids, "", " ")
		os.WriteFile(expFile, jb, 0o644)
		missing = nil
	}

	// triage failures
	known := loadKnown(filepath.Join(*verif, "known_findings.json"))
	var findings []*Finding
	for _, g := range failed {
		f := &Finding{Obligation: g.id, Property: prop}
		for _, o := range g.obs {
			good := o.Result == "unsat" || o.Result == "holds"
			if o.Canary {
				good = o.Result != "unsat"
			}
			if !good {
				f.Result, f.Solver, f.Model, f.SolverOut, f.QueryFile, f.Trace = o.Result, o.Solver, o.Model, trunc(o.Raw, 4000), o.File, o.Trace
				if o.Canary {
					f.SolverOut = "VACUITY: the path condition is contradictory (canary proved): " + f.SolverOut
				}
				if o.Input != nil {
					f.Input, f.Observed, f.Required, f.Confirmed, f.Replayed = o.Input, o.Observed, o.Required, true, true
				}
				break
			}
		}
		findings = append(findings, f)
	}
	for _, id := range missing {
		findings = append(findings, &Finding{Obligation: id, Property: prop, Result: "missing",
			SolverOut: "STALE-CONTRACT: obligation discharged on the unchanged tree is no longer generated (contract does not bind to the code)"})
	}
	violations := 0
	var lines []string
	if len(findings) > 0 {
		// one replay run of the property's harness for all findings
		confirmed := replayFindings(*verif, *repo, prop, cfg, findings, *tier, seed)
		os.MkdirAll(filepath.Join(*verif, "replays"), 0o755)
		reported := map[string]bool{}
		for _, f := range findings {
			// known findings (open) suppress only their own class
			if kf := matchKnown(known, f); kf != nil {
				lines = append(lines, fmt.Sprintf("KNOWN-FINDING: property=%s %s", prop, kf.What))
				continue
			}
			path := filepath.Join(*verif, "replays", safeName.ReplaceAllString(prop+"-"+f.Obligation, "_")+".json")
			jb, _ := json.MarshalIndent(map[string]interface{}{"property": prop, "obligation": f.Obligation, "finding": f, "repo": *repo, "tier": *tier,
				"note": "obligation generated from the current source failed; see solver_output and, when confirmed, failing_input"}, "", " ")
			os.WriteFile(path, jb, 0o644)
			suffix := ""
			if !f.Confirmed {
				suffix = " no-failing-input-found"
			}
			if !reported[path] {
				lines = append(lines, fmt.Sprintf("VIOLATION property=%s replay=%s%s", prop, path, suffix))
				reported[path] = true
			}
			violations++
		}
		_ = confirmed
	}

	// evidence
	if !*noEvidence {
		var assumptions []string
		for a := range eng.assumptions {
			assumptions = append(assumptions, a)
		}
		// axioms used
		axUsed := map[string]string{}
		for _, o := range eng.obligs {
			if o.File == "" {
				continue
			}
			_, axs := eng.buildQuery(o)
			for _, a := range axs {
				for _, it := range eng.prelude.Items {
					if it.Kind == "axiom" && it.Name == a {
						axUsed[a] = it.Trusted
					}
				}
			}
		}
		for a, d := range axUsed {
			assumptions = append(assumptions, "axiom "+a+": "+d)
		}
		assumptions = append(assumptions,
			"A-INT: Go int/int64 arithmetic is treated as mathematical (no overflow modelled); uint8/uint32/uint64 wrap exactly",
			"A-REAL: floating point is treated as real arithmetic (rounding, NaN, Inf invisible to the VC engine)",
			"the VC generator (govc), go/ssa's translation, the Go compiler/runtime and the SMT solvers are trusted",
			"panics caused by an RNG failure propagate to the caller (no function recovers: effects obligation of C09)")
		assumptions = append(assumptions, cfg.Trusted...)
		sort.Strings(assumptions)
		trusted := []string{"z3 4.8.12", "z3 5.1.0", "cvc5 1.0", "golang.org/x/tools/go/ssa v0.29.0", "govc VC generator (/verif/govc)", "assumed contracts of dependencies listed under assumptions"}
		trusted = append(trusted, cfg.Trusted...)
		level := cfg.Level
		if level == "" {
			level = "proof"
		}
		cov := map[string]interface{}{
			"obligations": nObl, "discharged": nDis,
			"checker_cmd":              fmt.Sprintf("/verif/check %s --tier %s", prop, *tier),
			"trusted_base":             trusted,
			"samples":                  samples,
			"functions_under_contract": cfg.Funcs,
			"lemmas":                   cfg.Lemmas,
			"queries":                  len(all) - nOther,
			"obligations_of_other_properties_not_counted": nOther,
			"by_backend":    byBackend,
			"solver_time_s": round3(solverTime),
			"vacuity":       map[string]interface{}{"canaries": nCanary, "note": "each canary asserts `false` at a reachable point (after requires, after loop invariants, at returns) and must NOT be provable"},
			"explanation":   cfg.Explain,
		}
		if level != "proof" {
			cov["explanation"] = cfg.Explain
		}
		for k, v := range extraCov {
			cov[k] = v
		}
		if len(findings) > 0 {
			var fl []string
			for _, f := range findings {
				fl = append(fl, f.Obligation+": "+f.Result)
			}
			cov["failed_obligations"] = fl
		}
		ev := map[string]interface{}{
			"property_id": prop, "tier": *tier, "seed": seed, "level": level, "coverage": cov,
			"assumptions": assumptions, "wall_s": round3(time.Since(t0).Seconds()), "violations": violations,
		}
		os.MkdirAll(filepath.Join(*verif, "evidence"), 0o755)
		jb, _ := json.MarshalIndent(ev, "", " ")
		os.WriteFile(filepath.Join(*verif, "evidence", prop+".json"), jb, 0o644)
	}
	for _, l := range lines {
		fmt.Println(l)
	}
	if os.Getenv("GOVC_SLOW") != "" {
		type sl struct {
			id string
			t  float64
			s  string
		}
		var sls []sl
		for _, id := range order {
			g := groups[id]
			for _, o := range g.obs {
				sls = append(sls, sl{id, o.Time, o.Solver})
			}
		}
		sort.Slice(sls, func(i, j int) bool { return sls[i].t > sls[j].t })
		for i := 0; i < 8 && i < len(sls); i++ {
			fmt.Printf("  slow: %.2fs %s %s\n", sls[i].t, sls[i].s, sls[i].id)
		}
	}
	fmt.Printf("%s %s: %d obligations, %d discharged, %d canaries, %d violation(s), %.1fs\n", prop, *tier, nObl, nDis, nCanary, violations, time.Since(t0).Seconds())
	if violations > 0 {
		return 1
	}
	return 0
}

func round3(f float64) float64 { return float64(int(f*1000+0.5)) / 1000 }

func trunc(s string, n int) string {
	if len(s) > n {
		return s[:n] + "…"
	}
	return s
}

func solveLemmas(eng *Engine, obs []*Obligation, outDir string, timeout int, needTwo bool) {
	os.MkdirAll(outDir, 0o755)
	done := make(chan bool, len(obs))
	for _, o := range obs {
		var lm *Lemma
		for _, l := range eng.prelude.Lemmas {
			if l.Name == o.Name {
				lm = l
			}
		}
		o.File = filepath.Join(outDir, "lemma_"+safeName.ReplaceAllString(o.Name, "_")+".smt2")
		os.WriteFile(o.File, []byte(lm.Text), 0o644)
		go func(o *Obligation) {
			if needTwo {
				// thorough: every solver configuration is run on the lemma (in parallel, each with the full
				// time); one proof decides it, a counter-model from any of them refutes it, and the names of
				// all configurations that proved it are recorded as the cross-check
				type one struct {
					name string
					r    solveResult
				}
				ch := make(chan one, len(solvers))
				for _, s := range solvers {
					go func(s solverSpec) { ch <- one{s.name, raceSolvers(o.File, timeout, []string{s.name})} }(s)
				}
				var names []string
				var tmax float64
				sat := false
				for range solvers {
					x := <-ch
					if x.r.res == "unsat" {
						names = append(names, x.name)
					}
					if x.r.res == "sat" && !sat {
						sat = true
						o.Result, o.Solver, o.Raw = "sat", x.name, x.r.out
					}
					if x.r.secs > tmax {
						tmax = x.r.secs
					}
				}
				if sat {
					done <- true
					return
				}
				sort.Strings(names)
				o.Time = tmax
				o.Solver = strings.Join(names, "+")
				if len(names) >= 1 {
					o.Result = "unsat"
				} else {
					o.Result = "unknown"
					o.Raw = "no solver proved the lemma"
				}
				done <- true
				return
			}
			r := raceSolvers(o.File, timeout, nil)
			o.Result, o.Solver, o.Time, o.Raw = r.res, r.solver, r.secs, r.out
			done <- true
		}(o)
	}
	for range obs {
		<-done
	}
}

func loadKnown(path string) []KnownFinding {
	var k struct {
		Findings []KnownFinding `json:"findings"`
	}
	b, err := os.ReadFile(path)
	if err != nil {
		return nil
	}
	json.Unmarshal(b, &k)
	return k.Findings
}

func matchKnown(known []KnownFinding, f *Finding) *KnownFinding {
	for i := range known {
		k := &known[i]
		if k.Status != "open" || k.Property != f.Property || k.Obligation != f.Obligation {
			continue
		}
		if k.Match != "" {
			jb, _ := json.Marshal(f.Input)
			if !strings.Contains(string(jb), k.Match) {
				continue
			}
		}
		return k
	}
	return nil
}

// ---------- replay on the real code ----------

type replayReq struct {
	Property string     `json:"property"`
	Tier     string     `json:"tier"`
	Seed     int        `json:"seed"`
	Findings []*Finding `json:"findings"`
}

type replayHit struct {
	Obligation string      `json:"obligation"` // which finding it confirms ("" = any)
	Input      interface{} `json:"input"`
	Observed   string      `json:"observed"`
	Required   string      `json:"required"`
}

// replayFindings runs the property's replay/search harness once (in-package test injected
// with -overlay; nothing is written into the repository) and attaches confirmed inputs.
func replayFindings(verif, repo, prop string, cfg *PropConfig, findings []*Finding, tier string, seed int) int {
	if cfg.Replay == "" {
		return 0
	}
	hits, log, err := runHarness(verif, repo, cfg.Replay, replayReq{Property: prop, Tier: tier, Seed: seed, Findings: findings})
	n := 0
	for _, f := range findings {
		if f.Confirmed {
			continue
		}
		f.Replayed = err == nil
		f.ReplayLog = trunc(log, 3000)
		for _, h := range hits {
			if h.Obligation == "" || h.Obligation == f.Obligation || strings.HasPrefix(f.Obligation, h.Obligation) {
				f.Confirmed = true
				f.Input, f.Observed, f.Required = h.Input, h.Observed, h.Required
				n++
				break
			}
		}
	}
	return n
}

func runHarness(verif, repo, harness string, req replayReq) ([]replayHit, string, error) {
	tmp, err := os.MkdirTemp("", "verif-replay-")
	if err != nil {
		return nil, "", err
	}
	defer os.RemoveAll(tmp)
	in := filepath.Join(tmp, "in.json")
	out := filepath.Join(tmp, "out.json")
	jb, _ := json.Marshal(req)
	os.WriteFile(in, jb, 0o644)
	pkgDir := repo
	pkgPath := "."
	repl := map[string]string{}
	files, _ := filepath.Glob(filepath.Join(verif, "replay", harness, "*.go"))
	if len(files) == 0 {
		return nil, "", fmt.Errorf("no harness %s", harness)
	}
	if _, err := os.Stat(filepath.Join(verif, "replay", harness, "NOLIB")); err != nil {
		lib, _ := filepath.Glob(filepath.Join(verif, "replay", "lib", "*.go"))
		files = append(files, lib...)
	}
	sub := ""
	if b, err := os.ReadFile(filepath.Join(verif, "replay", harness, "PKGDIR")); err == nil {
		sub = strings.TrimSpace(string(b))
	}
	for _, f := range files {
		repl[filepath.Join(repo, sub, "zz_verif_"+filepath.Base(f))] = f
	}
	if src, ok := harnessShims[sub]; ok && src != "" {
		sf := filepath.Join(tmp, "shims_test.go")
		os.WriteFile(sf, []byte(src), 0o644)
		repl[filepath.Join(repo, sub, "zz_verif_renamed_test.go")] = sf
	}
	if sub != "" {
		pkgPath = "./" + sub
	}
	trimGoCache(filepath.Join(os.TempDir(), "verif-gocache"), 1<<30)
	ov := filepath.Join(tmp, "overlay.json")
	ob, _ := json.Marshal(map[string]interface{}{"Replace": repl})
	os.WriteFile(ov, ob, 0o644)
	to := "120s"
	if req.Tier == "thorough" {
		to = "900s"
	}
	args := []string{"test", "-overlay", ov, "-vet=off", "-count=1", "-timeout", to, "-run", "^TestVerifReplay$"}
	_, raceErr := os.Stat(filepath.Join(verif, "replay", harness, "RACE"))
	if raceErr == nil {
		args = append(args, "-race")
	}
	cmd := exec.Command("go", append(args, pkgPath)...)
	cmd.Dir = pkgDir
	cmd.Env = append(os.Environ(), "GOFLAGS=-mod=mod", "GOPROXY=off", "GOSUMDB=off", "GOTOOLCHAIN=local",
		"VERIF_REPLAY_IN="+in, "VERIF_REPLAY_OUT="+out, "GOCACHE="+filepath.Join(os.TempDir(), "verif-gocache"))
	ob2, runErr := cmd.CombinedOutput()
	var hits []replayHit
	if hb, err := os.ReadFile(out); err == nil {
		json.Unmarshal(hb, &hits)
	}
	log := string(ob2)
	if k := strings.Index(log, "WARNING: DATA RACE"); k >= 0 && raceErr == nil {
		// the race detector's report is the failing schedule: two unsynchronised accesses with their stacks
		rep := log[k:]
		if e := strings.Index(rep, "=================="); e > 0 {
			rep = rep[:e]
		}
		if len(rep) > 3000 {
			rep = rep[:3000]
		}
		hits = append([]replayHit{{Input: "concurrent calls on shared values (see replay/" + harness + ")", Observed: "data race reported by the Go race detector: " + rep, Required: "no data race between concurrent API calls on shared recipes, word lists and separator functions"}}, hits...)
	}
	if runErr != nil && len(hits) == 0 {
		// a crash of the harness itself (e.g. a panic in the code under test) is reported in the log
		return hits, log, nil
	}
	return hits, log, nil
}

func runReplayFile(verif, repo, prop string, cfg *PropConfig, path string) int {
	b, err := os.ReadFile(path)
	if err != nil {
		fmt.Println(err)
		return 2
	}
	var rec struct {
		Finding *Finding `json:"finding"`
	}
	if err := json.Unmarshal(b, &rec); err != nil || rec.Finding == nil {
		fmt.Println("not a replay file")
		return 2
	}
	f := rec.Finding
	f.Confirmed = false
	replayFindings(verif, repo, prop, cfg, []*Finding{f}, "quick", 1)
	if f.Confirmed {
		fmt.Printf("REPLAY property=%s obligation=%s reproduced: observed %s; required %s\n", prop, f.Obligation, f.Observed, f.Required)
		fmt.Printf("VIOLATION property=%s replay=%s\n", prop, path)
		return 1
	}
	fmt.Printf("REPLAY property=%s obligation=%s not reproduced on the current tree\n", prop, f.Obligation)
	return 0
}

// trimGoCache removes the harness build cache when it has grown beyond limit bytes (every changed tree adds
// its own test binaries; the cache is only a speed-up and is rebuilt on demand).
func trimGoCache(dir string, limit int64) {
	var total int64
	filepath.Walk(dir, func(_ string, fi os.FileInfo, err error) error {
		if err == nil && fi != nil && !fi.IsDir() {
			total += fi.Size()
			if total > limit {
				return filepath.SkipAll
			}
		}
		return nil
	})
	if total > limit {
		os.RemoveAll(dir)
	}
}
