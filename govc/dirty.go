package main

// "Dirty" analysis: which heap components may be written at objects that already existed
// when a scope (a function invocation, or one loop) was entered. Components that are touched
// but not dirty only receive new objects, so everything allocated before is framed.

import (
	"go/types"
	"strings"

	"golang.org/x/tools/go/ssa"
)

type scopeFn func(b *ssa.BasicBlock) bool

func (eng *Engine) freshIn(v ssa.Value, scope scopeFn, seen map[ssa.Value]bool) bool {
	if seen[v] {
		return true
	}
	seen[v] = true
	switch x := v.(type) {
	case *ssa.Alloc:
		return x.Block() != nil && scope(x.Block())
	case *ssa.MakeSlice:
		return scope(x.Block())
	case *ssa.MakeMap:
		return scope(x.Block())
	case *ssa.FieldAddr:
		return eng.freshIn(x.X, scope, seen)
	case *ssa.IndexAddr:
		return eng.freshIn(x.X, scope, seen)
	case *ssa.Slice:
		return eng.freshIn(x.X, scope, seen)
	case *ssa.ChangeType:
		return eng.freshIn(x.X, scope, seen)
	case *ssa.Phi:
		for _, e := range x.Edges {
			if c, ok := e.(*ssa.Const); ok && c.Value == nil {
				continue // nil slice/pointer: nothing to write through
			}
			if !eng.freshIn(e, scope, seen) {
				return false
			}
		}
		return true
	case *ssa.Call:
		// constructors of the set library return fresh sets
		if x.Common().IsInvoke() {
			if strings.HasSuffix(x.Common().Value.Type().String(), "golang-set.Set") {
				switch x.Common().Method.Name() {
				case "Union", "Difference", "Intersect", "Clone", "PowerSet", "SymmetricDifference":
					return scope(x.Block())
				}
			}
			return false
		}
		if f, ok := x.Common().Value.(*ssa.Function); ok && strings.HasSuffix(f.String(), "golang-set.NewSet") {
			return scope(x.Block())
		}
		if b, ok := x.Common().Value.(*ssa.Builtin); ok && b.Name() == "append" {
			a0 := x.Common().Args[0]
			if c, ok := a0.(*ssa.Const); ok && c.Value == nil {
				return scope(x.Block())
			}
			return scope(x.Block()) && eng.freshIn(a0, scope, seen)
		}
	case *ssa.Const:
		return x.Value == nil
	}
	return false
}

func (eng *Engine) dirtyFunc(fn *ssa.Function) map[string]bool {
	if d, ok := eng.dirtyCache[fn]; ok {
		return d
	}
	if eng.dirtyBusy[fn] {
		return map[string]bool{}
	}
	eng.dirtyBusy[fn] = true
	d := map[string]bool{}
	if len(fn.Blocks) == 0 || !eng.ours(fn) {
		// externs: conservatively everything they touch (except pure allocation)
		for c := range eng.touchFunc(fn) {
			if c != "@alloc" && !strings.HasPrefix(c, "ghost:") {
				d[c] = true
			}
		}
	} else {
		in := map[*ssa.BasicBlock]bool{}
		for _, b := range fn.Blocks {
			in[b] = true
		}
		for _, b := range fn.Blocks {
			eng.dirtyBlock(b, func(x *ssa.BasicBlock) bool { return in[x] }, d)
		}
	}
	delete(eng.dirtyBusy, fn)
	eng.dirtyCache[fn] = d
	return d
}

func (eng *Engine) dirtyBlock(b *ssa.BasicBlock, scope scopeFn, d map[string]bool) {
	fresh := func(v ssa.Value) bool { return eng.freshIn(v, scope, map[ssa.Value]bool{}) }
	mapComps := func(mt *types.Map) {
		eng.regMap(mt)
		d[mapDom(mt)], d[mapVal(mt)], d[mapLen] = true, true, true
	}
	for _, in := range b.Instrs {
		switch in := in.(type) {
		case *ssa.Store:
			if !fresh(in.Addr) {
				t := map[string]bool{}
				eng.addrComp(in.Addr, t)
				for c := range t {
					d[c] = true
				}
			}
		case *ssa.MapUpdate:
			if !fresh(in.Map) {
				mapComps(in.Map.Type().Underlying().(*types.Map))
			}
		case *ssa.Call:
			c := in.Common()
			if c.IsInvoke() {
				t := map[string]bool{}
				eng.invokeTouch(c, t)
				for k := range t {
					if k != "@alloc" && !strings.HasPrefix(k, "ghost:") {
						// Union/Difference/Iter only create new sets; Add writes its receiver
						if k == setHeap && (c.Method.Name() != "Add" || fresh(c.Value)) {
							continue
						}
						d[k] = true
					}
				}
				continue
			}
			switch callee := c.Value.(type) {
			case *ssa.Builtin:
				switch callee.Name() {
				case "append":
					if !fresh(c.Args[0]) {
						d[eng.regSlice(in.Type().Underlying().(*types.Slice).Elem())] = true
					}
				case "delete":
					if !fresh(c.Args[0]) {
						mapComps(c.Args[0].Type().Underlying().(*types.Map))
					}
				}
			case *ssa.Function:
				eng.dirtyCall(callee, c.Args, fresh, d)
			case *ssa.MakeClosure:
				eng.dirtyCall(callee.Fn.(*ssa.Function), c.Args, fresh, d)
			default:
				// a function value that cannot be a separator function: any function of identical signature may be the callee
				if sig, ok := c.Value.Type().Underlying().(*types.Signature); ok && !sfShaped(sig) {
					for _, f := range eng.funcsWithSig(sig) {
						for k := range eng.dirtyFunc(f) {
							d[k] = true
						}
					}
					continue
				}
				// function value: closures created in this function; unknown ones modify nothing (A-SF)
				for _, bb := range b.Parent().Blocks {
					for _, x := range bb.Instrs {
						if mc, ok := x.(*ssa.MakeClosure); ok {
							for k := range eng.dirtyFunc(mc.Fn.(*ssa.Function)) {
								d[k] = true
							}
						}
					}
				}
			}
		}
	}
}

func (eng *Engine) dirtyCall(callee *ssa.Function, args []ssa.Value, fresh func(ssa.Value) bool, d map[string]bool) {
	if eng.ours(callee) && len(callee.Blocks) > 0 {
		if fc := eng.contractOf(callee); fc != nil && !fc.Inline {
			// frame of a contract callee: its modifies clause (checked against its body by the frame obligations)
			for _, m := range fc.Modifies {
				if _, isGhost := eng.ghosts[m]; isGhost {
					continue
				}
				root := strings.Split(m, ".")[0]
				for i, p := range callee.Params {
					if p.Name() == root && i < len(args) {
						if et, ok := derefType(p.Type()); ok && !fresh(args[i]) {
							d[eng.regPtr(et)] = true
						}
					}
				}
			}
			return
		}
		for k := range eng.dirtyFunc(callee) {
			d[k] = true
		}
		return
	}
	switch callee.String() {
	case "crypto/rand.Read":
		if !fresh(args[0]) {
			d[eng.regSlice(types.Typ[types.Uint8])] = true
		}
	case "sort.Strings":
		if !fresh(args[0]) {
			d[eng.regSlice(types.Typ[types.String])] = true
		}
	}
}
