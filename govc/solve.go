package main

import (
	"bytes"
	"context"
	"fmt"
	"os"
	"os/exec"
	"path/filepath"
	"regexp"
	"strings"
	"sync"
	"time"
)

type solverSpec struct {
	name string
	argv func(file string, timeout int) []string
}

// extra configurations used only when the standard portfolio could not decide an obligation
var retrySolvers = []solverSpec{
	{"z3-new/seed7", func(f string, t int) []string {
		return []string{"z3-new", fmt.Sprintf("-T:%d", t), "smt.random_seed=7", f}
	}},
	{"z3-new/seed23", func(f string, t int) []string {
		return []string{"z3-new", fmt.Sprintf("-T:%d", t), "smt.random_seed=23", "smt.arith.random_initial_value=true", f}
	}},
	{"z3/seed11", func(f string, t int) []string {
		return []string{"z3", fmt.Sprintf("-T:%d", t), "smt.random_seed=11", f}
	}},
}

// first stage: two cheap attempts with a short limit decide most obligations without loading all cores
var quickSolvers = []solverSpec{
	{"z3", func(f string, t int) []string { return []string{"z3", fmt.Sprintf("-T:%d", t), f} }},
	{"z3-new", func(f string, t int) []string { return []string{"z3-new", fmt.Sprintf("-T:%d", t), f} }},
	{"z3-new/noauto", func(f string, t int) []string {
		return []string{"z3-new", fmt.Sprintf("-T:%d", t), "smt.auto_config=false", f}
	}},
	{"z3-new/arith2", func(f string, t int) []string {
		return []string{"z3-new", fmt.Sprintf("-T:%d", t), "smt.arith.solver=2", f}
	}},
	{"cvc5", func(f string, t int) []string {
		return []string{"cvc5", "--lang=smt2", fmt.Sprintf("--tlimit=%d", t*1000), "--produce-models", f}
	}},
}

var solvers = []solverSpec{
	{"z3-new", func(f string, t int) []string { return []string{"z3-new", fmt.Sprintf("-T:%d", t), f} }},
	{"z3-new/arith2", func(f string, t int) []string {
		// the older simplex core: decides several store-chain goals at once on which the default core times out
		return []string{"z3-new", fmt.Sprintf("-T:%d", t), "smt.arith.solver=2", f}
	}},
	{"z3-new/noauto", func(f string, t int) []string {
		// without z3's automatic configuration (no logic-specific tactic selection): pure E-matching goals
		// with nested array reads are often decided at once this way
		return []string{"z3-new", fmt.Sprintf("-T:%d", t), "smt.auto_config=false", f}
	}},
	{"z3", func(f string, t int) []string { return []string{"z3", fmt.Sprintf("-T:%d", t), f} }},
	{"cvc5", func(f string, t int) []string {
		return []string{"cvc5", "--lang=smt2", fmt.Sprintf("--tlimit=%d", t*1000), "--produce-models", f}
	}},
	{"cvc5-enum", func(f string, t int) []string {
		return []string{"cvc5", "--lang=smt2", fmt.Sprintf("--tlimit=%d", t*1000), "--produce-models", "--enum-inst", f}
	}},
	{"cvc5-enum-only", func(f string, t int) []string {
		return []string{"cvc5", "--lang=smt2", fmt.Sprintf("--tlimit=%d", t*1000), "--produce-models", "--enum-inst", "--no-e-matching", f}
	}},
}

const smtHeader = `(define-fun godiv ((a Int) (b Int)) Int (ite (>= a 0) (ite (> b 0) (div a b) (- (div a (- b)))) (ite (> b 0) (- (div (- a) b)) (div (- a) (- b)))))
(define-fun gomod ((a Int) (b Int)) Int (- a (* b (godiv a b))))
`

const smtIdx = `(declare-fun idx (Int Int) Int)
(assert (forall ((o Int) (j Int)) (! (= (idx o j) (+ o j)) :pattern ((idx o j)))))
`

// buildQuery assembles the SMT-LIB script of an obligation.
func (eng *Engine) buildQuery(o *Obligation) (string, []string) {
	decls := o.Decls
	if o.Variant == "focused" && o.Clause != "" {
		// sound weakening of the hypotheses: keep only the loop invariants with the goal's clause name
		var keep []string
		for _, ln := range strings.Split(decls, "\n") {
			if k := strings.Index(ln, ";@inv:"); k >= 0 && strings.TrimSpace(ln[k+6:]) != o.Clause {
				continue
			}
			keep = append(keep, ln)
		}
		decls = strings.Join(keep, "\n")
	}
	body := decls + "\n(assert (not " + o.Goal + "))\n"
	syms := symsOfText(body)
	for _, it := range o.Inputs {
		for sy := range symsOfText(it.Term) {
			syms[sy] = true
		}
	}
	// global declarations mentioned (and what they mention)
	var gl strings.Builder
	for changed := true; changed; {
		changed = false
		for _, name := range eng.globalsOrder {
			if syms[name] && !syms["@done:"+name] {
				syms["@done:"+name] = true
				changed = true
				for _, ax := range eng.globalAx[name] {
					for s := range symsOfText(ax) {
						syms[s] = true
					}
				}
			}
		}
	}
	for _, name := range eng.globalsOrder {
		if syms["@done:"+name] {
			gl.WriteString(eng.globalsDecl[name] + "\n")
			for _, ax := range eng.globalAx[name] {
				gl.WriteString("(assert " + ax + ")\n")
			}
		}
	}
	lit := eng.litDecls(syms)
	for s := range symsOfText(lit) {
		syms[s] = true
	}
	if lit != "" {
		syms["blen"], syms["clen"], syms["eps"] = true, true, true
	}
	pre, axs := eng.prelude.selectPrelude(syms, o.Uses)
	// sorts first, then datatypes, then the rest of the prelude
	var sortsTxt, rest strings.Builder
	for _, ln := range strings.Split(pre, "\n") {
		if strings.HasPrefix(ln, "(declare-sort") {
			sortsTxt.WriteString(ln + "\n")
		} else if ln != "" {
			rest.WriteString(ln + "\n")
		}
	}
	all := rest.String() + gl.String() + lit + body
	allSyms := symsOfText(all)
	dts := eng.sorts.datatypeDecls(func(n string) bool { return allSyms[n] || allSyms["mk_"+n] || hasPrefixSym(allSyms, n+"_") })
	var q strings.Builder
	q.WriteString("(set-option :produce-models true)\n(set-logic ALL)\n")
	q.WriteString("(declare-sort Str 0)\n")
	for _, ln := range strings.Split(sortsTxt.String(), "\n") {
		if ln != "" && !strings.Contains(ln, "declare-sort Str ") {
			q.WriteString(ln + "\n")
		}
	}
	q.WriteString(dts)
	q.WriteString(smtHeader)
	if allSyms["idx"] {
		q.WriteString(smtIdx)
	}
	q.WriteString(rest.String())
	q.WriteString(gl.String())
	q.WriteString(lit)
	q.WriteString(body)
	q.WriteString("(check-sat)\n")
	if len(o.Inputs) > 0 {
		q.WriteString("(get-value (")
		for _, it := range o.Inputs {
			q.WriteString(it.Term + " ")
		}
		q.WriteString("))\n")
	}
	return q.String(), axs
}

func hasPrefixSym(m map[string]bool, p string) bool {
	for s := range m {
		if strings.HasPrefix(s, p) {
			return true
		}
	}
	return false
}

type solveResult struct {
	res    string
	solver string
	secs   float64
	out    string
}

// raceSolvers runs all solvers on the file; first definite answer wins.
func raceSolvers(file string, timeoutS int, only []string) solveResult {
	return raceSolversWith(solvers, file, timeoutS, only)
}

func raceSolversWith(solvers []solverSpec, file string, timeoutS int, only []string) solveResult {
	ctx, cancel := context.WithCancel(context.Background())
	defer cancel()
	ch := make(chan solveResult, len(solvers))
	n := 0
	for _, s := range solvers {
		if len(only) > 0 && !contains(only, s.name) {
			continue
		}
		n++
		go func(s solverSpec) {
			argv := s.argv(file, timeoutS)
			t0 := time.Now()
			cmd := exec.CommandContext(ctx, argv[0], argv[1:]...)
			var out bytes.Buffer
			cmd.Stdout = &out
			cmd.Stderr = &out
			_ = cmd.Run()
			first := strings.TrimSpace(strings.SplitN(out.String(), "\n", 2)[0])
			r := "unknown"
			switch first {
			case "unsat":
				r = "unsat"
			case "sat":
				r = "sat"
			}
			ch <- solveResult{r, s.name, time.Since(t0).Seconds(), out.String()}
		}(s)
	}
	var last solveResult
	last.res = "unknown"
	var unknownOut []string
	for i := 0; i < n; i++ {
		r := <-ch
		if r.res == "unsat" || r.res == "sat" {
			return r
		}
		unknownOut = append(unknownOut, r.solver+": "+firstLines(r.out, 3))
		if r.secs > last.secs {
			last = r
		}
	}
	last.res = "unknown"
	last.out = strings.Join(unknownOut, "\n")
	return last
}

func firstLines(s string, n int) string {
	ls := strings.Split(strings.TrimSpace(s), "\n")
	if len(ls) > n {
		ls = ls[:n]
	}
	return strings.Join(ls, " | ")
}

func contains(xs []string, s string) bool {
	for _, x := range xs {
		if x == s {
			return true
		}
	}
	return false
}

var safeName = regexp.MustCompile(`[^A-Za-z0-9_.\-]+`)

// solveAll discharges the obligations in parallel.
func (eng *Engine) solveAll(outDir string, timeoutS int, workers int) {
	os.MkdirAll(outDir, 0o755)
	var wg sync.WaitGroup
	sem := make(chan struct{}, workers)
	cnt := map[string]int{}
	for _, o := range eng.obligs {
		if o.Result != "" {
			continue
		}
		cnt[o.ID()]++
		o.File = filepath.Join(outDir, safeName.ReplaceAllString(fmt.Sprintf("%s.%d", o.ID(), cnt[o.ID()]), "_")+".smt2")
		q, axs := eng.buildQuery(o)
		_ = axs
		if len(q) > 600000 {
			o.Result = "unknown"
			o.Raw = "query exceeds size cap"
			continue
		}
		os.WriteFile(o.File, []byte(q), 0o644)
		wg.Add(1)
		sem <- struct{}{}
		go func(o *Obligation) {
			defer wg.Done()
			defer func() { <-sem }()
			to := timeoutS
			if o.Canary {
				to = 2
			}
			r := solveResult{res: "unknown"}
			if !o.Canary {
				r = raceSolversWith(quickSolvers, o.File, 3, nil)
			}
			if r.res != "unsat" && r.res != "sat" {
				t1 := r.secs
				r = raceSolvers(o.File, to, nil)
				r.secs += t1
			}
			o.Result, o.Solver, o.Time, o.Raw = r.res, r.solver, r.secs, r.out
			if r.res == "sat" {
				o.Model = parseModel(r.out, o.Inputs)
			}
		}(o)
	}
	wg.Wait()
	// second round (a): obligations the standard portfolio left undecided are retried with other
	// solver seeds and twice the time (performance of SMT solvers on quantified goals varies with seed)
	for _, o := range eng.obligs {
		if o.Canary || o.File == "" || o.Result != "unknown" {
			continue
		}
		wg.Add(1)
		sem <- struct{}{}
		go func(o *Obligation) {
			defer wg.Done()
			defer func() { <-sem }()
			r := raceSolversWith(append(append([]solverSpec{}, retrySolvers...), solvers...), o.File, 2*timeoutS, nil)
			if r.res == "unsat" || r.res == "sat" {
				o.Result, o.Solver, o.Time, o.Raw = r.res, r.solver+" (retry)", o.Time+r.secs, r.out
				if r.res == "sat" {
					o.Model = parseModel(r.out, o.Inputs)
				}
			}
		}(o)
	}
	wg.Wait()
	// second round (b): obligations that did not discharge are retried with fewer hypotheses
	// (only the loop invariants that carry the goal's own clause name) - sound, often much faster
	for _, o := range eng.obligs {
		if o.Canary || o.Clause == "" || o.Result == "unsat" || o.Result == "sat" || o.File == "" || !strings.Contains(o.Decls, ";@inv:") {
			continue
		}
		if o.Result != "unknown" {
			continue
		}
		wg.Add(1)
		sem <- struct{}{}
		go func(o *Obligation) {
			defer wg.Done()
			defer func() { <-sem }()
			o.Variant = "focused"
			q, _ := eng.buildQuery(o)
			f2 := strings.TrimSuffix(o.File, ".smt2") + ".focused.smt2"
			os.WriteFile(f2, []byte(q), 0o644)
			r := raceSolvers(f2, timeoutS, nil)
			if r.res == "unsat" {
				o.Result, o.Solver, o.Time, o.Raw, o.File = r.res, r.solver+" (focused)", o.Time+r.secs, r.out, f2
			} else {
				o.Variant = ""
			}
		}(o)
	}
	wg.Wait()
}

// parseModel extracts the (get-value ...) answer.
func parseModel(out string, inputs []InputTerm) map[string]string {
	m := map[string]string{}
	i := strings.Index(out, "\n")
	if i < 0 {
		return m
	}
	forms, err := parseSexps(out[i+1:])
	if err != nil || len(forms) == 0 || !forms[0].IsL {
		return m
	}
	for k, pair := range forms[0].List {
		if pair.IsL && len(pair.List) == 2 && k < len(inputs) {
			m[inputs[k].Name] = pair.List[1].String()
		}
	}
	return m
}
