package main

// E2: the effects engine. Modular, annotation-light obligations over every function of
// the package: callee whitelist / entropy source, no recover, frames (no write to memory
// the function did not allocate), secrecy (no generated material reaches an output sink).

import (
	"fmt"
	"go/token"
	"go/types"
	"sort"
	"strings"

	"golang.org/x/tools/go/ssa"
)

// allFuncs returns every function with a body in the named package (methods and closures included).
func (eng *Engine) allFuncs(pkgName string) []*ssa.Function {
	sp := eng.spkg[pkgName]
	if sp == nil {
		return nil
	}
	seen := map[*ssa.Function]bool{}
	var out []*ssa.Function
	var add func(f *ssa.Function)
	add = func(f *ssa.Function) {
		if f == nil || seen[f] || len(f.Blocks) == 0 {
			return
		}
		seen[f] = true
		if f.Synthetic == "" || strings.HasPrefix(f.Synthetic, "package initializer") {
			out = append(out, f)
		}
		for _, a := range f.AnonFuncs {
			add(a)
		}
	}
	for _, m := range sp.Members {
		switch x := m.(type) {
		case *ssa.Function:
			add(x)
		case *ssa.Type:
			for _, T := range []types.Type{x.Type(), types.NewPointer(x.Type())} {
				ms := eng.prog.MethodSets.MethodSet(T)
				for i := 0; i < ms.Len(); i++ {
					add(eng.prog.MethodValue(ms.At(i)))
				}
			}
		}
	}
	sort.Slice(out, func(i, j int) bool { return eng.fnKey(out[i]) < eng.fnKey(out[j]) })
	return out
}

func effOb(fn, kind, name string, props []string, ok bool, why string) *Obligation {
	o := &Obligation{Func: fn, Kind: kind, Name: name, Props: props, Solver: "E2"}
	if ok {
		o.Result = "holds"
	} else {
		o.Result = "violated"
		o.Raw = why
	}
	return o
}

// calleeName returns a printable name for the static callee of a call, or "" for dynamic calls.
func calleeName(c *ssa.CallCommon) string {
	if c.IsInvoke() {
		return "(" + c.Value.Type().String() + ")." + c.Method.Name()
	}
	switch v := c.Value.(type) {
	case *ssa.Function:
		return v.String()
	case *ssa.Builtin:
		return "builtin " + v.Name()
	case *ssa.MakeClosure:
		return v.Fn.String()
	}
	return ""
}

func calleePkg(c *ssa.CallCommon) string {
	if c.IsInvoke() {
		if c.Method.Pkg() != nil {
			return c.Method.Pkg().Path()
		}
		return ""
	}
	if f, ok := c.Value.(*ssa.Function); ok {
		if f.Pkg != nil {
			return f.Pkg.Pkg.Path()
		}
		if f.Object() != nil && f.Object().Pkg() != nil {
			return f.Object().Pkg().Path()
		}
	}
	return ""
}

// Packages the library may call into, and why.
var libAllowedPkgs = map[string]string{
	"strings": "pure string functions", "fmt": "formatting and diagnostics", "math": "pure arithmetic",
	"math/big": "pure arithmetic", "sort": "in-place sort", "log": "diagnostics", "encoding/binary": "byte decoding",
	"unicode/utf8": "pure", "github.com/deckarep/golang-set": "set library", "go.1password.io/spg": "itself",
	"errors": "pure", "os": "only the os.Stderr/os.Stdout variables (checked separately)",
}

// effectsEntropy: C09 — crypto/rand.Read, called from randomUint32 only, is the sole source of
// randomness; no other package that could supply entropy or nondeterminism is reachable.
func (eng *Engine) effectsEntropy(props []string) []*Obligation {
	var out []*Obligation
	for _, fn := range eng.allFuncs("spg") {
		key := eng.fnKey(fn)
		var bad []string
		usesRand := false
		for _, b := range fn.Blocks {
			for _, in := range b.Instrs {
				var c *ssa.CallCommon
				switch x := in.(type) {
				case *ssa.Call:
					c = x.Common()
				case *ssa.Defer:
					c = x.Common()
				case *ssa.Go:
					c = x.Common()
				}
				if c != nil {
					pk := calleePkg(c)
					nm := calleeName(c)
					if f, ok := c.Value.(*ssa.Function); ok && f.Name() == "init" && f.Synthetic != "" {
						continue // package initialiser chaining to the initialisers of imported packages
					}
					switch {
					case pk == "crypto/rand":
						usesRand = true
						if nm != "crypto/rand.Read" {
							bad = append(bad, "calls "+nm+" (only crypto/rand.Read has an assumed contract: full read or error)")
						}
					case pk == "":
					case strings.HasPrefix(pk, "go.1password.io/spg"):
					default:
						if _, ok := libAllowedPkgs[pk]; !ok {
							bad = append(bad, "calls "+nm+" in package "+pk+" which is not on the library's callee whitelist")
						}
						if pk == "os" {
							bad = append(bad, "calls "+nm+" (package os functions are not allowed in the library)")
						}
					}
				}
				// reading rand.Reader (or any other crypto/rand, math/rand, time variable) directly
				for _, op := range in.Operands(nil) {
					if g, ok := (*op).(*ssa.Global); ok && g.Pkg != nil {
						switch g.Pkg.Pkg.Path() {
						case "crypto/rand", "math/rand", "time":
							bad = append(bad, "uses variable "+g.String())
						}
					}
				}
			}
		}
		if usesRand && key != "spg.randomUint32" {
			bad = append(bad, "calls into crypto/rand outside randomUint32")
		}
		out = append(out, effOb(key, "effects", "entropy-source", props, len(bad) == 0, strings.Join(bad, "; ")))
	}
	return out
}

// effectsNoRecover: nobody can turn a fail-closed panic into a normal return.
func (eng *Engine) effectsNoRecover(props []string) []*Obligation {
	var out []*Obligation
	for _, fn := range eng.allFuncs("spg") {
		var bad []string
		for _, b := range fn.Blocks {
			for _, in := range b.Instrs {
				switch x := in.(type) {
				case *ssa.Defer:
					bad = append(bad, "defers "+calleeName(x.Common()))
				case *ssa.Call:
					if bi, ok := x.Common().Value.(*ssa.Builtin); ok && bi.Name() == "recover" {
						bad = append(bad, "calls recover()")
					}
				case *ssa.Go:
					bad = append(bad, "starts a goroutine")
				case *ssa.Select:
					bad = append(bad, "uses select")
				}
			}
		}
		if fn.Recover != nil {
			bad = append(bad, "has a recover block")
		}
		out = append(out, effOb(eng.fnKey(fn), "effects", "no-recover", props, len(bad) == 0, strings.Join(bad, "; ")))
	}
	return out
}

var _ = fmt.Sprintf
var _ = token.ADD
