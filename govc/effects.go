package main

// E2: the effects engine. Modular, annotation-light obligations over every function of
// the package: callee whitelist / entropy source, no recover, frames (no write to memory
// the function did not allocate), secrecy (no generated material reaches an output sink).

import (
	"fmt"
	"go/token"
	"go/types"
	"sort"
	"strings"

	"golang.org/x/tools/go/ssa"
)

// allFuncs returns every function with a body in the named package (methods and closures included).
func (eng *Engine) allFuncs(pkgName string) []*ssa.Function {
	sp := eng.spkg[pkgName]
	if sp == nil {
		return nil
	}
	seen := map[*ssa.Function]bool{}
	var out []*ssa.Function
	var add func(f *ssa.Function)
	add = func(f *ssa.Function) {
		if f == nil || seen[f] || len(f.Blocks) == 0 {
			return
		}
		seen[f] = true
		if f.Synthetic == "" || strings.HasPrefix(f.Synthetic, "package initializer") {
			out = append(out, f)
		}
		for _, a := range f.AnonFuncs {
			add(a)
		}
	}
	for _, m := range sp.Members {
		switch x := m.(type) {
		case *ssa.Function:
			add(x)
		case *ssa.Type:
			for _, T := range []types.Type{x.Type(), types.NewPointer(x.Type())} {
				ms := eng.prog.MethodSets.MethodSet(T)
				for i := 0; i < ms.Len(); i++ {
					add(eng.prog.MethodValue(ms.At(i)))
				}
			}
		}
	}
	sort.Slice(out, func(i, j int) bool { return eng.fnKey(out[i]) < eng.fnKey(out[j]) })
	return out
}

func effOb(fn, kind, name string, props []string, ok bool, why string) *Obligation {
	o := &Obligation{Func: fn, Kind: kind, Name: name, Props: props, Solver: "E2"}
	if ok {
		o.Result = "holds"
	} else {
		o.Result = "violated"
		o.Raw = why
	}
	return o
}

// calleeName returns a printable name for the static callee of a call, or "" for dynamic calls.
func calleeName(c *ssa.CallCommon) string {
	if c.IsInvoke() {
		return "(" + c.Value.Type().String() + ")." + c.Method.Name()
	}
	switch v := c.Value.(type) {
	case *ssa.Function:
		return v.String()
	case *ssa.Builtin:
		return "builtin " + v.Name()
	case *ssa.MakeClosure:
		return v.Fn.String()
	}
	return ""
}

func calleePkg(c *ssa.CallCommon) string {
	if c.IsInvoke() {
		if c.Method.Pkg() != nil {
			return c.Method.Pkg().Path()
		}
		return ""
	}
	if f, ok := c.Value.(*ssa.Function); ok {
		if f.Pkg != nil {
			return f.Pkg.Pkg.Path()
		}
		if f.Object() != nil && f.Object().Pkg() != nil {
			return f.Object().Pkg().Path()
		}
	}
	return ""
}

// Packages the library may call into, and why.
var libAllowedPkgs = map[string]string{
	"strings": "pure string functions", "fmt": "formatting and diagnostics", "math": "pure arithmetic",
	"math/big": "pure arithmetic", "sort": "in-place sort", "log": "diagnostics", "encoding/binary": "byte decoding",
	"unicode/utf8": "pure", "github.com/deckarep/golang-set": "set library", "go.1password.io/spg": "itself",
	"errors": "pure", "os": "only the os.Stderr/os.Stdout variables (checked separately)",
}

// effectsEntropy: C09 — crypto/rand.Read, called from randomUint32 only, is the sole source of
// randomness; no other package that could supply entropy or nondeterminism is reachable.
func (eng *Engine) effectsEntropy(props []string) []*Obligation {
	var out []*Obligation
	for _, fn := range eng.allFuncs("spg") {
		key := eng.fnKey(fn)
		var bad []string
		usesRand := false
		for _, b := range fn.Blocks {
			for _, in := range b.Instrs {
				var c *ssa.CallCommon
				switch x := in.(type) {
				case *ssa.Call:
					c = x.Common()
				case *ssa.Defer:
					c = x.Common()
				case *ssa.Go:
					c = x.Common()
				}
				if c != nil {
					pk := calleePkg(c)
					nm := calleeName(c)
					if f, ok := c.Value.(*ssa.Function); ok && f.Name() == "init" && f.Synthetic != "" {
						continue // package initialiser chaining to the initialisers of imported packages
					}
					switch {
					case pk == "crypto/rand":
						usesRand = true
						if nm != "crypto/rand.Read" {
							bad = append(bad, "calls "+nm+" (only crypto/rand.Read has an assumed contract: full read or error)")
						}
					case pk == "":
					case strings.HasPrefix(pk, "go.1password.io/spg"):
					default:
						if _, ok := libAllowedPkgs[pk]; !ok {
							bad = append(bad, "calls "+nm+" in package "+pk+" which is not on the library's callee whitelist")
						}
						if pk == "os" {
							bad = append(bad, "calls "+nm+" (package os functions are not allowed in the library)")
						}
					}
				}
				// reading rand.Reader (or any other crypto/rand, math/rand, time variable) directly
				for _, op := range in.Operands(nil) {
					if g, ok := (*op).(*ssa.Global); ok && g.Pkg != nil {
						switch g.Pkg.Pkg.Path() {
						case "crypto/rand", "math/rand", "time":
							bad = append(bad, "uses variable "+g.String())
						}
					}
				}
			}
		}
		if usesRand && key != "spg.randomUint32" {
			bad = append(bad, "calls into crypto/rand outside randomUint32")
		}
		out = append(out, effOb(key, "effects", "entropy-source", props, len(bad) == 0, strings.Join(bad, "; ")))
	}
	return out
}

// effectsRawDraw: C01/C04 - every choice a generator makes goes through the bounded draw: the raw 32-bit word
// (randomUint32) is consumed by randomUint32n only, so no function can derive a choice from a raw word (bits of
// it, v % n, ...) behind the back of the rejection sampling whose uniformity is proved.
func (eng *Engine) effectsRawDraw(props []string) []*Obligation {
	var out []*Obligation
	for _, fn := range eng.allFuncs("spg") {
		if eng.isHookFunc(fn) {
			continue
		}
		key := eng.fnKey(fn)
		var bad []string
		for _, b := range fn.Blocks {
			for _, in := range b.Instrs {
				for _, op := range in.Operands(nil) {
					if f, ok := (*op).(*ssa.Function); ok && eng.fnKey(f) == "spg.randomUint32" && key != "spg.randomUint32n" {
						bad = append(bad, "uses the raw random word (randomUint32) outside randomUint32n")
					}
				}
			}
		}
		out = append(out, effOb(key, "effects", "raw-draw", props, len(bad) == 0, strings.Join(bad, "; ")))
	}
	return out
}

// effectsNoRecover: nobody can turn a fail-closed panic into a normal return.
func (eng *Engine) effectsNoRecover(props []string) []*Obligation {
	var out []*Obligation
	for _, fn := range eng.allFuncs("spg") {
		var bad []string
		for _, b := range fn.Blocks {
			for _, in := range b.Instrs {
				switch x := in.(type) {
				case *ssa.Defer:
					bad = append(bad, "defers "+calleeName(x.Common()))
				case *ssa.Call:
					if bi, ok := x.Common().Value.(*ssa.Builtin); ok && bi.Name() == "recover" {
						bad = append(bad, "calls recover()")
					}
				case *ssa.Go:
					bad = append(bad, "starts a goroutine")
				case *ssa.Select:
					bad = append(bad, "uses select")
				}
			}
		}
		if fn.Recover != nil {
			bad = append(bad, "has a recover block")
		}
		out = append(out, effOb(eng.fnKey(fn), "effects", "no-recover", props, len(bad) == 0, strings.Join(bad, "; ")))
	}
	return out
}

var _ = fmt.Sprintf
var _ = token.ADD

// isHookFunc: code that exists only under the verif build tag (proof carriers) is not part of the library.
func (eng *Engine) isHookFunc(fn *ssa.Function) bool {
	f := fn
	for f.Parent() != nil {
		f = f.Parent()
	}
	pos := eng.fset.Position(f.Pos())
	return strings.HasSuffix(pos.Filename, "verif_hooks.go")
}

// effectsFrames: C14/C15 - no function writes memory that existed before the call, except as
// declared in a modifies clause. Functions under an E1 contract have their writes checked
// symbolically (frame obligations of E1); all others must be syntactically clean.
func (eng *Engine) effectsFrames(props []string) []*Obligation {
	var out []*Obligation
	for _, fn := range eng.allFuncs("spg") {
		if eng.isHookFunc(fn) {
			continue
		}
		key := eng.fnKey(fn)
		if fn.Name() == "init" && fn.Synthetic != "" {
			continue
		}
		d := eng.dirtyFunc(fn)
		var bad []string
		fc := eng.contractOf(fn)
		underE1 := fc != nil && !fc.Inline && !fc.Trusted
		for c := range d {
			if underE1 {
				continue // decided precisely by the frame obligations generated while verifying fn
			}
			bad = append(bad, "may write existing objects of "+c)
		}
		// goroutines would break the sequential frame argument
		for _, b := range fn.Blocks {
			for _, in := range b.Instrs {
				if _, ok := in.(*ssa.Go); ok {
					bad = append(bad, "starts a goroutine")
				}
			}
		}
		sort.Strings(bad)
		why := strings.Join(bad, "; ")
		o := effOb(key, "effects", "frame", props, len(bad) == 0, why)
		if underE1 && len(d) > 0 {
			o.Raw = "writes to possibly pre-existing memory are decided by E1 frame obligations"
		}
		out = append(out, o)
	}
	return out
}

// effectsGlobals: package-level variables are written only by initialisers, and the only
// mutable configuration read on API paths is MaxTrials / MaxFailRate.
func (eng *Engine) effectsGlobals(props []string) []*Obligation {
	allowedReads := map[string]bool{"MaxTrials": true, "MaxFailRate": true, "charTypeByFlag": true, "charTypeNamesByFlag": true,
		"AgileWords": true, "AgileSyllables": true}
	var out []*Obligation
	for _, fn := range eng.allFuncs("spg") {
		if eng.isHookFunc(fn) {
			continue
		}
		isInit := fn.Name() == "init" && fn.Synthetic != ""
		var bad []string
		for _, b := range fn.Blocks {
			for _, in := range b.Instrs {
				for _, op := range in.Operands(nil) {
					g, ok := (*op).(*ssa.Global)
					if !ok || g.Pkg == nil {
						continue
					}
					own := g.Pkg.Pkg.Path() == "go.1password.io/spg"
					switch x := in.(type) {
					case *ssa.UnOp:
						if x.Op == token.MUL && !isInit {
							if own && !allowedReads[g.Name()] && !strings.HasPrefix(g.Name(), "SF") {
								bad = append(bad, "reads package variable "+g.Name())
							}
							if !own {
								nm := g.Pkg.Pkg.Path() + "." + g.Name()
								if nm != "os.Stderr" && nm != "os.Stdout" && nm != "encoding/binary.BigEndian" {
									bad = append(bad, "reads "+nm)
								}
							}
						}
					case *ssa.Store:
						if x.Addr == ssa.Value(g) && !isInit {
							bad = append(bad, "assigns package variable "+g.Name())
						}
					default:
						if !isInit {
							bad = append(bad, fmt.Sprintf("takes the address of package variable %s (%T)", g.Name(), in))
						}
					}
				}
				// writes into package-level maps / slices through a loaded reference
				if mu, ok := in.(*ssa.MapUpdate); ok && !isInit {
					if u, ok := mu.Map.(*ssa.UnOp); ok {
						if g, ok := u.X.(*ssa.Global); ok {
							bad = append(bad, "updates package-level map "+g.Name())
						}
					}
				}
				if c, ok := in.(*ssa.Call); ok && !isInit {
					if bi, ok := c.Common().Value.(*ssa.Builtin); ok && bi.Name() == "delete" {
						if u, ok := c.Common().Args[0].(*ssa.UnOp); ok {
							if g, ok := u.X.(*ssa.Global); ok {
								bad = append(bad, "deletes from package-level map "+g.Name())
							}
						}
					}
				}
			}
		}
		out = append(out, effOb(eng.fnKey(fn), "effects", "globals", props, len(bad) == 0, strings.Join(bad, "; ")))
	}
	return out
}

// ---------- secrecy (C18) ----------

type labels uint64 // bit 0: SECRET (derived from a random draw); bit k+1: depends on parameter k

const secretBit labels = 1

type fnSummary struct {
	res      []labels // per result: labels
	sinkPars labels   // parameters (bits k+1) that flow to an output sink inside the function (transitively)
	viol     []string // secrets reaching a sink inside this function
}

func (eng *Engine) secrecy(props []string) []*Obligation {
	fns := eng.allFuncs("spg")
	sum := map[*ssa.Function]*fnSummary{}
	for _, f := range fns {
		n := f.Signature.Results().Len()
		sum[f] = &fnSummary{res: make([]labels, n)}
	}
	heap := map[string]labels{} // heap component -> labels of stored values (package-wide, flow-insensitive)
	isSink := func(c *ssa.CallCommon) (bool, string) {
		nm := calleeName(c)
		for _, p := range []string{"fmt.Print", "fmt.Fprint", "log.Print", "log.Fatal", "log.Panic", "builtin print", "os.Stdout", "os.Stderr", "(*os.File).Write", "(io.Writer).Write", "io.WriteString", "(*log.Logger)"} {
			if strings.Contains(nm, p) {
				return true, nm
			}
		}
		return false, nm
	}
	isSource := func(c *ssa.CallCommon) bool {
		// by the key the contracts know the function under (a renamed source stays a source)
		if f, ok := c.Value.(*ssa.Function); ok {
			k := eng.fnKey(f)
			return k == "spg.randomUint32" || k == "spg.randomUint32n"
		}
		return false
	}
	// labels of everything reachable from a value of type t through pointers, slices, maps and fields
	var reachT func(t types.Type, depth int) labels
	reachT = func(t types.Type, depth int) labels {
		if depth > 6 {
			return 0
		}
		var l labels
		switch u := t.Underlying().(type) {
		case *types.Pointer:
			if _, isArr := u.Elem().Underlying().(*types.Array); !isArr {
				l |= heap[ptrHeap(u.Elem())]
			}
			l |= reachT(u.Elem(), depth+1)
		case *types.Slice:
			l |= heap[sliceHeap(u.Elem())] | reachT(u.Elem(), depth+1)
		case *types.Array:
			l |= heap[sliceHeap(u.Elem())] | reachT(u.Elem(), depth+1)
		case *types.Map:
			l |= heap[mapVal(u)] | reachT(u.Elem(), depth+1)
		case *types.Struct:
			for i := 0; i < u.NumFields(); i++ {
				l |= reachT(u.Field(i).Type(), depth+1)
			}
		}
		return l
	}
	reachV := func(v ssa.Value) labels {
		if mi, ok := v.(*ssa.MakeInterface); ok {
			return reachT(mi.X.Type(), 0)
		}
		return reachT(v.Type(), 0)
	}
	changed := true
	for iter := 0; changed && iter < 50; iter++ {
		changed = false
		for _, f := range fns {
			s := sum[f]
			s.viol = nil
			val := map[ssa.Value]labels{}
			for i, p := range f.Params {
				val[p] = 1 << uint(i+1)
			}
			for i, fv := range f.FreeVars {
				// captured variables: treated like extra parameters beyond the declared ones
				val[fv] = 1 << uint(len(f.Params)+i+1)
			}
			get := func(v ssa.Value) labels {
				if l, ok := val[v]; ok {
					return l
				}
				return 0
			}
			compOf := func(addr ssa.Value) []string {
				t := map[string]bool{}
				eng.addrComp(addr, t)
				var cs []string
				for c := range t {
					cs = append(cs, c)
				}
				return cs
			}
			local := true
			for pass := 0; local && pass < 20; pass++ {
				local = false
				set := func(v ssa.Value, l labels) {
					if val[v]|l != val[v] {
						val[v] |= l
						local = true
					}
				}
				for _, b := range f.Blocks {
					for _, in := range b.Instrs {
						switch x := in.(type) {
						case *ssa.Store:
							for _, c := range compOf(x.Addr) {
								l := get(x.Val)
								if heap[c]|l != heap[c] {
									heap[c] |= l
									changed = true
								}
							}
						case *ssa.MapUpdate:
							mt := x.Map.Type().Underlying().(*types.Map)
							l := get(x.Key) | get(x.Value)
							if heap[mapVal(mt)]|l != heap[mapVal(mt)] {
								heap[mapVal(mt)] |= l
								changed = true
							}
						case *ssa.UnOp:
							if x.Op == token.MUL {
								l := get(x.X)
								for _, c := range compOf(x.X) {
									l |= heap[c]
								}
								set(x, l)
							} else {
								set(x, get(x.X))
							}
						case *ssa.Lookup:
							l := get(x.X) | get(x.Index)
							if mt, ok := x.X.Type().Underlying().(*types.Map); ok {
								l |= heap[mapVal(mt)]
							}
							set(x, l)
						case *ssa.Return:
							for i, r := range x.Results {
								if s.res[i]|get(r) != s.res[i] {
									s.res[i] |= get(r)
									changed = true
								}
							}
						case *ssa.Panic:
							if (get(x.X)|reachV(x.X))&secretBit != 0 {
								s.viol = append(s.viol, "panic payload depends on generated material")
							}
							if pl := get(x.X) &^ secretBit; s.sinkPars|pl != s.sinkPars {
								s.sinkPars |= pl
								changed = true
							}
						case *ssa.Call:
							c := x.Common()
							var argl labels
							var args []ssa.Value
							if c.IsInvoke() {
								args = append(args, c.Value)
							}
							args = append(args, c.Args...)
							for _, a := range args {
								argl |= get(a)
							}
							if sink, nm := isSink(c); sink {
								// variadic arguments arrive in a slice: its elements' labels are in the heap component
								l := argl
								for _, a := range args {
									if sl, ok := a.Type().Underlying().(*types.Slice); ok {
										l |= variadicLabels(a, func(v ssa.Value) labels { return get(v) | reachV(v) }, heap[sliceHeap(sl.Elem())])
									} else {
										l |= reachV(a)
									}
								}
								if l&secretBit != 0 {
									s.viol = append(s.viol, "value derived from a random draw reaches "+nm)
								}
								// "diagnostics contain counts and probabilities only": whatever its origin, a non-constant
								// string (or any other non-numeric value) handed to an output function is a violation
								for _, a := range c.Args {
									if isWriterArg(a) {
										continue
									}
									if _, isSl := a.Type().Underlying().(*types.Slice); isSl {
										for _, e := range variadicElems(a) {
											if !countOrProbability(e) {
												s.viol = append(s.viol, "diagnostic written with "+nm+" contains a value of type "+elemTypeString(e)+", not a count or probability")
											}
										}
										continue
									}
									if !countOrProbability(a) {
										s.viol = append(s.viol, "diagnostic written with "+nm+" contains a value of type "+elemTypeString(a)+", not a count or probability")
									}
								}
								if pl := l &^ secretBit; s.sinkPars|pl != s.sinkPars {
									s.sinkPars |= pl
									changed = true
								}
								continue
							}
							if isSource(c) {
								set(x, secretBit)
								continue
							}
							var callee *ssa.Function
							switch cv := c.Value.(type) {
							case *ssa.Function:
								callee = cv
							case *ssa.MakeClosure:
								callee = cv.Fn.(*ssa.Function)
							}
							if cs, ok := sum[callee]; ok && callee != nil {
								var rl labels
								for _, r := range cs.res {
									rl |= r
								}
								out := rl & secretBit
								for i, a := range c.Args {
									if rl&(1<<uint(i+1)) != 0 {
										out |= get(a)
									}
									if cs.sinkPars&(1<<uint(i+1)) != 0 {
										if get(a)&secretBit != 0 {
											s.viol = append(s.viol, "value derived from a random draw is passed to "+calleeName(c)+" which writes it to an output sink")
										}
										if pl := get(a) &^ secretBit; s.sinkPars|pl != s.sinkPars {
											s.sinkPars |= pl
											changed = true
										}
									}
								}
								set(x, out)
								continue
							}
							// unknown / external / dynamic callee: result depends on all arguments (for a variadic
							// argument slice: on the elements stored into it, e.g. fmt.Errorf("%q", candidate) yields an
							// error value that carries the candidate); results of separator functions of unknown
							// origin are generated material
							out := argl
							_, isBuiltin := c.Value.(*ssa.Builtin)
							for _, a := range args {
								if sl, ok := a.Type().Underlying().(*types.Slice); ok && !isBuiltin && c.Signature().Variadic() {
									out |= variadicLabels(a, func(v ssa.Value) labels { return get(v) | reachV(v) }, heap[sliceHeap(sl.Elem())])
								}
							}
							if _, isFnVal := c.Value.(*ssa.Function); !isFnVal && !c.IsInvoke() {
								if _, isB := c.Value.(*ssa.Builtin); !isB {
									if _, isC := c.Value.(*ssa.MakeClosure); !isC {
										out |= secretBit
									}
								}
							}
							// builtins len/cap do not reveal contents
							if bi, ok := c.Value.(*ssa.Builtin); ok && (bi.Name() == "len" || bi.Name() == "cap") {
								out = 0
								for _, a := range c.Args {
									out |= get(a)
								}
							}
							set(x, out)
						default:
							if v, ok := in.(ssa.Value); ok {
								var l labels
								for _, op := range in.Operands(nil) {
									if *op != nil {
										l |= get(*op)
									}
								}
								set(v, l)
							}
						}
					}
				}
			}
		}
	}
	var out []*Obligation
	for _, f := range fns {
		if eng.isHookFunc(f) {
			continue
		}
		s := sum[f]
		sort.Strings(s.viol)
		var uniq []string
		for i, v := range s.viol {
			if i == 0 || v != s.viol[i-1] {
				uniq = append(uniq, v)
			}
		}
		o := effOb(eng.fnKey(f), "secrecy", "no-secret-to-sink", props, len(uniq) == 0, strings.Join(uniq, "; "))
		out = append(out, o)
	}
	return out
}

// variadicLabels: labels of the elements of a variadic argument slice. The compiler builds it
// as `new [n]T (varargs)`, stores into its elements and slices it: those stores are read directly
// (the package-wide label of the element heap would make every formatted message look secret).
// variadicElems: the values stored into a compiler-built variadic argument slice (nil if a is not one).
func variadicElems(a ssa.Value) []ssa.Value {
	sl, ok := a.(*ssa.Slice)
	if !ok {
		return nil
	}
	al, ok := sl.X.(*ssa.Alloc)
	if !ok {
		return nil
	}
	var out []ssa.Value
	for _, b := range al.Parent().Blocks {
		for _, in := range b.Instrs {
			if st, ok := in.(*ssa.Store); ok {
				if ia, ok := st.Addr.(*ssa.IndexAddr); ok && ia.X == ssa.Value(al) {
					out = append(out, st.Val)
				}
			}
		}
	}
	return out
}

// countOrProbability: is the value something a diagnostic may print according to the property - a number, a
// boolean or a constant string (format / fixed message)?
func countOrProbability(v ssa.Value) bool {
	if mi, ok := v.(*ssa.MakeInterface); ok {
		v = mi.X
	}
	if _, ok := v.(*ssa.Const); ok {
		return true
	}
	if b, ok := v.Type().Underlying().(*types.Basic); ok {
		return b.Info()&(types.IsNumeric|types.IsBoolean) != 0
	}
	return false
}

func variadicLabels(a ssa.Value, get func(ssa.Value) labels, fallback labels) labels {
	sl, ok := a.(*ssa.Slice)
	if !ok {
		if c, isC := a.(*ssa.Const); isC && c.Value == nil {
			return 0
		}
		return fallback
	}
	al, ok := sl.X.(*ssa.Alloc)
	if !ok {
		return fallback
	}
	var l labels
	for _, b := range al.Parent().Blocks {
		for _, in := range b.Instrs {
			if st, ok := in.(*ssa.Store); ok {
				if ia, ok := st.Addr.(*ssa.IndexAddr); ok && ia.X == ssa.Value(al) {
					l |= get(st.Val)
				}
			}
		}
	}
	return l
}

func isWriterArg(a ssa.Value) bool {
	t := a.Type().String()
	return t == "io.Writer" || t == "*os.File" || strings.HasSuffix(t, "log.Logger")
}

func elemTypeString(v ssa.Value) string {
	if mi, ok := v.(*ssa.MakeInterface); ok {
		v = mi.X
	}
	return v.Type().String()
}
