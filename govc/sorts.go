package main

// Mapping of Go types to SMT sorts, heap components, zero values and type invariants.

import (
	"fmt"
	"go/types"
	"math/big"
	"sort"
	"strings"
)

const (
	SInt   = "Int"
	SBool  = "Bool"
	SReal  = "Real"
	SStr   = "Str"
	SSlice = "Slice"
)

type StructInfo struct {
	Sort   string
	T      *types.Struct
	Named  string
	Fields []string // selector names
	FSorts []string
}

type Sorts struct {
	structs map[string]*StructInfo // by sort name
	byType  map[string]*StructInfo // by types.Type string
	order   []string
}

func newSorts() *Sorts {
	return &Sorts{structs: map[string]*StructInfo{}, byType: map[string]*StructInfo{}}
}

func mangle(s string) string {
	var b strings.Builder
	for _, r := range s {
		switch {
		case r >= 'a' && r <= 'z', r >= 'A' && r <= 'Z', r >= '0' && r <= '9', r == '_':
			b.WriteRune(r)
		case r == '*':
			b.WriteString("P")
		case r == '[':
			b.WriteString("L")
		case r == ']':
			b.WriteString("R")
		case r == '.', r == '/':
			b.WriteString("_")
		default:
			b.WriteString("_")
		}
	}
	return b.String()
}

func typeName(t types.Type) string {
	switch tt := t.(type) {
	case *types.Named:
		return tt.Obj().Name()
	case *types.Alias:
		return typeName(types.Unalias(tt))
	case *types.Basic:
		n := tt.Name()
		if n == "byte" {
			n = "uint8"
		}
		if n == "untyped int" {
			n = "int"
		}
		return n
	case *types.Pointer:
		return "P" + typeName(tt.Elem())
	case *types.Slice:
		return "Sl" + typeName(tt.Elem())
	case *types.Array:
		return fmt.Sprintf("A%d%s", tt.Len(), typeName(tt.Elem()))
	case *types.Map:
		return "M" + typeName(tt.Key()) + "_" + typeName(tt.Elem())
	case *types.Interface:
		return "any"
	case *types.Signature:
		return "func"
	case *types.Struct:
		return "anonstruct"
	case *types.Tuple:
		return "tuple"
	case *types.Chan:
		return "chan"
	}
	return mangle(t.String())
}

// sortOf returns the SMT sort of a Go type.
func (so *Sorts) sortOf(t types.Type) string {
	switch u := t.Underlying().(type) {
	case *types.Basic:
		info := u.Info()
		switch {
		case info&types.IsBoolean != 0:
			return SBool
		case info&types.IsInteger != 0:
			return SInt
		case info&types.IsFloat != 0:
			return SReal
		case info&types.IsString != 0:
			return SStr
		case u.Kind() == types.UnsafePointer, u.Kind() == types.UntypedNil:
			return SInt
		}
		return SInt
	case *types.Pointer, *types.Map, *types.Chan, *types.Signature, *types.Interface:
		return SInt
	case *types.Slice:
		return SSlice
	case *types.Array:
		return SInt // only ever handled through pointers: the array id
	case *types.Struct:
		return so.structOf(t).Sort
	case *types.Tuple:
		return "TUPLE"
	}
	panic("sortOf: unsupported type " + t.String())
}

func (so *Sorts) structOf(t types.Type) *StructInfo {
	key := t.String()
	if si, ok := so.byType[key]; ok {
		return si
	}
	st := t.Underlying().(*types.Struct)
	name := typeName(t)
	if _, isNamed := types.Unalias(t).(*types.Named); !isNamed {
		name = fmt.Sprintf("Anon%d", len(so.structs))
	}
	sortName := name
	switch sortName {
	case "Int", "Bool", "Real", "Str", "Slice", "Array", "Float", "String":
		sortName = "Go" + sortName
	}
	if _, dup := so.structs[sortName]; dup {
		sortName = fmt.Sprintf("%s_%d", name, len(so.structs))
	}
	si := &StructInfo{Sort: sortName, T: st, Named: name}
	so.byType[key] = si
	so.structs[sortName] = si
	for i := 0; i < st.NumFields(); i++ {
		f := st.Field(i)
		si.Fields = append(si.Fields, sortName+"_"+f.Name())
		si.FSorts = append(si.FSorts, so.sortOf(f.Type()))
	}
	so.order = append(so.order, sortName)
	return si
}

// datatypeDecls emits declare-datatypes for the struct sorts in dependency order.
func (so *Sorts) datatypeDecls(need func(string) bool) string {
	var b strings.Builder
	b.WriteString("(declare-datatypes ((Slice 0)) (((mk_Slice (sl_arr Int) (sl_off Int) (sl_len Int) (sl_cap Int)))))\n")
	done := map[string]bool{}
	var emit func(name string)
	emit = func(name string) {
		if done[name] {
			return
		}
		done[name] = true
		si := so.structs[name]
		for _, fs := range si.FSorts {
			if _, ok := so.structs[fs]; ok {
				emit(fs)
			}
		}
		fmt.Fprintf(&b, "(declare-datatypes ((%s 0)) (((mk_%s", si.Sort, si.Sort)
		for i, f := range si.Fields {
			fmt.Fprintf(&b, " (%s %s)", f, si.FSorts[i])
		}
		b.WriteString("))))\n")
	}
	names := append([]string{}, so.order...)
	sort.Strings(names)
	for _, n := range names {
		if need == nil || need(n) {
			emit(n)
		}
	}
	return b.String()
}

func (so *Sorts) zero(t types.Type) string {
	switch u := t.Underlying().(type) {
	case *types.Basic:
		info := u.Info()
		switch {
		case info&types.IsBoolean != 0:
			return "false"
		case info&types.IsFloat != 0:
			return "0.0"
		case info&types.IsString != 0:
			return "eps"
		}
		return "0"
	case *types.Slice:
		return "(mk_Slice 0 0 0 0)"
	case *types.Struct:
		si := so.structOf(t)
		if len(si.Fields) == 0 {
			return "mk_" + si.Sort
		}
		var b strings.Builder
		b.WriteString("(mk_" + si.Sort)
		for i := 0; i < u.NumFields(); i++ {
			b.WriteString(" " + so.zero(u.Field(i).Type()))
		}
		b.WriteString(")")
		return b.String()
	}
	return "0"
}

var pow2 = map[int]string{8: "256", 16: "65536", 32: "4294967296", 64: "18446744073709551616"}

// intRange returns (lo, hi, bits, unsigned) for integer types; ok=false for non-integers.
func intRange(t types.Type) (lo, hi string, bits int, unsigned bool, ok bool) {
	b, isB := t.Underlying().(*types.Basic)
	if !isB || b.Info()&types.IsInteger == 0 {
		return
	}
	ok = true
	switch b.Kind() {
	case types.Uint8:
		return "0", "255", 8, true, true
	case types.Uint16:
		return "0", "65535", 16, true, true
	case types.Uint32:
		return "0", "4294967295", 32, true, true
	case types.Uint64, types.Uint, types.Uintptr:
		return "0", "18446744073709551615", 64, true, true
	case types.Int8:
		return "(- 128)", "127", 8, false, true
	case types.Int16:
		return "(- 32768)", "32767", 16, false, true
	case types.Int32:
		return "(- 2147483648)", "2147483647", 32, false, true
	default:
		return "(- 9223372036854775808)", "9223372036854775807", 64, false, true
	}
}

// typeInv returns an SMT formula stating the representation invariant of a
// value term of Go type t (ranges of machine integers, slice header sanity), or "".
func (so *Sorts) typeInv(t types.Type, term string) string {
	switch u := t.Underlying().(type) {
	case *types.Basic:
		if lo, hi, _, _, ok := intRange(t); ok {
			return fmt.Sprintf("(and (<= %s %s) (<= %s %s))", lo, term, term, hi)
		}
	case *types.Slice:
		return fmt.Sprintf("(and (<= 0 (sl_arr %s)) (<= 0 (sl_off %s)) (<= 0 (sl_len %s)) (<= (sl_len %s) (sl_cap %s)) (<= (sl_cap %s) 9223372036854775807) (=> (= (sl_arr %s) 0) (and (= (sl_cap %s) 0) (= (sl_off %s) 0))))", term, term, term, term, term, term, term, term, term)
	case *types.Pointer, *types.Map, *types.Signature, *types.Chan:
		return fmt.Sprintf("(<= 0 %s)", term)
	case *types.Struct:
		si := so.structOf(t)
		var parts []string
		for i := 0; i < u.NumFields(); i++ {
			if inv := so.typeInv(u.Field(i).Type(), fmt.Sprintf("(%s %s)", si.Fields[i], term)); inv != "" {
				parts = append(parts, inv)
			}
		}
		if len(parts) > 0 {
			return "(and " + strings.Join(parts, " ") + ")"
		}
	}
	return ""
}

// allocInv: every reference held in a value of type t is at most the allocation counter.
func (so *Sorts) allocInv(t types.Type, term, alloc string) string {
	switch u := t.Underlying().(type) {
	case *types.Pointer, *types.Map, *types.Signature, *types.Interface, *types.Chan:
		return "(<= " + term + " " + alloc + ")"
	case *types.Slice:
		return "(<= (sl_arr " + term + ") " + alloc + ")"
	case *types.Struct:
		si := so.structOf(t)
		var parts []string
		for i := 0; i < u.NumFields(); i++ {
			if inv := so.allocInv(u.Field(i).Type(), fmt.Sprintf("(%s %s)", si.Fields[i], term), alloc); inv != "" {
				parts = append(parts, inv)
			}
		}
		if len(parts) == 1 {
			return parts[0]
		}
		if len(parts) > 1 {
			return "(and " + strings.Join(parts, " ") + ")"
		}
	}
	return ""
}

func smtInt(v *big.Int) string {
	if v.Sign() < 0 {
		return "(- " + new(big.Int).Neg(v).String() + ")"
	}
	return v.String()
}

func smtRat(r *big.Rat) string {
	num, den := r.Num(), r.Denom()
	n := smtInt(num) + ".0"
	if num.Sign() < 0 {
		n = "(- " + new(big.Int).Neg(num).String() + ".0)"
	}
	if den.Cmp(big.NewInt(1)) == 0 {
		return n
	}
	return "(/ " + n + " " + den.String() + ".0)"
}

// heap component names
func ptrHeap(elem types.Type) string   { return "H_" + typeName(elem) }
func sliceHeap(elem types.Type) string { return "SH_" + typeName(elem) }
func mapDom(m *types.Map) string       { return "MD_" + typeName(m.Key()) }
func mapVal(m *types.Map) string {
	return "MV_" + typeName(m.Key()) + "_" + typeName(m.Elem())
}

const mapLen = "ML"
const setHeap = "SET"
const bigIHeap = "BIGI"
const bigFHeap = "BIGF"
