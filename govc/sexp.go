package main

// S-expression reader for the SMT-LIB prelude (/verif/spec/*.smt2) and the
// symbol-driven selection of prelude items for a query.

import (
	"fmt"
	"os"
	"path/filepath"
	"sort"
	"strings"
)

type Sexp struct {
	Atom string
	List []*Sexp
	IsL  bool
}

func (s *Sexp) String() string {
	if !s.IsL {
		return s.Atom
	}
	var b strings.Builder
	b.WriteByte('(')
	for i, c := range s.List {
		if i > 0 {
			b.WriteByte(' ')
		}
		b.WriteString(c.String())
	}
	b.WriteByte(')')
	return b.String()
}

func parseSexps(src string) ([]*Sexp, error) {
	var out []*Sexp
	pos := 0
	var parse func() (*Sexp, error)
	skip := func() {
		for pos < len(src) {
			c := src[pos]
			if c == ';' {
				for pos < len(src) && src[pos] != '\n' {
					pos++
				}
			} else if c == ' ' || c == '\t' || c == '\n' || c == '\r' {
				pos++
			} else {
				return
			}
		}
	}
	parse = func() (*Sexp, error) {
		skip()
		if pos >= len(src) {
			return nil, fmt.Errorf("eof")
		}
		if src[pos] == '(' {
			pos++
			n := &Sexp{IsL: true}
			for {
				skip()
				if pos >= len(src) {
					return nil, fmt.Errorf("unbalanced")
				}
				if src[pos] == ')' {
					pos++
					return n, nil
				}
				c, err := parse()
				if err != nil {
					return nil, err
				}
				n.List = append(n.List, c)
			}
		}
		if src[pos] == ')' {
			return nil, fmt.Errorf("unexpected )")
		}
		st := pos
		if src[pos] == '"' {
			pos++
			for pos < len(src) && src[pos] != '"' {
				pos++
			}
			pos++
			return &Sexp{Atom: src[st:pos]}, nil
		}
		if src[pos] == '|' {
			pos++
			for pos < len(src) && src[pos] != '|' {
				pos++
			}
			pos++
			return &Sexp{Atom: src[st:pos]}, nil
		}
		for pos < len(src) && !strings.ContainsRune(" \t\n\r()", rune(src[pos])) {
			pos++
		}
		return &Sexp{Atom: src[st:pos]}, nil
	}
	for {
		skip()
		if pos >= len(src) {
			return out, nil
		}
		s, err := parse()
		if err != nil {
			return nil, err
		}
		out = append(out, s)
	}
}

func (s *Sexp) atoms(into map[string]bool) {
	if !s.IsL {
		into[s.Atom] = true
		return
	}
	for _, c := range s.List {
		c.atoms(into)
	}
}

// PreItem is one top-level form of the prelude.
type PreItem struct {
	Kind    string // sort, datatype, declare, define, axiom
	Name    string // declared symbol, or axiom name from annotation
	Text    string
	Syms    map[string]bool // all atoms mentioned
	Trigger []string        // axiom: included when all of these symbols are in the query
	Trusted string          // axiom: description for evidence (assumption)
	OptIn   bool            // axiom: included only for functions whose contract lists it under "uses"
	ArgS    []string        // declare/define: argument sorts
	ResS    string
	Order   int
}

type Prelude struct {
	Items  []*PreItem
	BySym  map[string]*PreItem
	Lemmas []*Lemma
}

// Lemma is a standalone proof obligation stated in the spec directory.
type Lemma struct {
	Name  string
	Props []string
	File  string
	Text  string // complete SMT-LIB script; expected unsat
	Descr string
}

var smtBuiltins = map[string]bool{}

func init() {
	for _, s := range strings.Fields("forall exists let and or not => = distinct ite + - * / div mod abs < <= > >= true false select store Int Bool Real Array as const to_real to_int is_int ! :pattern :named :qid :weight assert declare-fun define-fun define-fun-rec declare-sort declare-const declare-datatypes declare-datatype par") {
		smtBuiltins[s] = true
	}
}

// loadPrelude reads spec/*.smt2 in lexical order. Annotation lines start with ";;@".
//
//	;;@ axiom NAME [trigger=a,b] :: description   (applies to the next form, an assert)
//	;;@ lemma NAME props=C01,C02 :: description   (until ";;@ end"; a complete script, expected unsat)
func loadPrelude(dir string) (*Prelude, error) {
	files, _ := filepath.Glob(filepath.Join(dir, "*.smt2"))
	sort.Strings(files)
	p := &Prelude{BySym: map[string]*PreItem{}}
	order := 0
	for _, f := range files {
		b, err := os.ReadFile(f)
		if err != nil {
			return nil, err
		}
		lines := strings.Split(string(b), "\n")
		var pendingAx *PreItem
		var cur strings.Builder
		flush := func() error {
			txt := cur.String()
			cur.Reset()
			forms, err := parseSexps(txt)
			if err != nil {
				return fmt.Errorf("%s: %v", f, err)
			}
			for _, fm := range forms {
				it, err := classify(fm)
				if err != nil {
					return fmt.Errorf("%s: %v", f, err)
				}
				if it.Kind == "axiom" {
					if pendingAx == nil {
						return fmt.Errorf("%s: assert without ;;@ axiom annotation: %s", f, fm.String())
					}
					it.Name = pendingAx.Name
					it.Trigger = pendingAx.Trigger
					it.Trusted = pendingAx.Trusted
					it.OptIn = pendingAx.OptIn
					pendingAx = nil
				}
				order++
				it.Order = order
				p.Items = append(p.Items, it)
				if it.Kind != "axiom" {
					p.BySym[it.Name] = it
				}
			}
			return nil
		}
		for i := 0; i < len(lines); i++ {
			ln := lines[i]
			t := strings.TrimSpace(ln)
			if strings.HasPrefix(t, ";;@ lemma ") {
				if err := flush(); err != nil {
					return nil, err
				}
				hdr := strings.TrimPrefix(t, ";;@ lemma ")
				lm := &Lemma{File: f}
				if k := strings.Index(hdr, "::"); k >= 0 {
					lm.Descr = strings.TrimSpace(hdr[k+2:])
					hdr = hdr[:k]
				}
				fs := strings.Fields(hdr)
				lm.Name = fs[0]
				for _, x := range fs[1:] {
					if strings.HasPrefix(x, "props=") {
						lm.Props = strings.Split(strings.TrimPrefix(x, "props="), ",")
					}
				}
				var lb strings.Builder
				i++
				for i < len(lines) && strings.TrimSpace(lines[i]) != ";;@ end" {
					lb.WriteString(lines[i])
					lb.WriteByte('\n')
					i++
				}
				lm.Text = lb.String()
				p.Lemmas = append(p.Lemmas, lm)
				continue
			}
			if strings.HasPrefix(t, ";;@ axiom ") {
				if err := flush(); err != nil {
					return nil, err
				}
				hdr := strings.TrimPrefix(t, ";;@ axiom ")
				ax := &PreItem{}
				if k := strings.Index(hdr, "::"); k >= 0 {
					ax.Trusted = strings.TrimSpace(hdr[k+2:])
					hdr = hdr[:k]
				}
				fs := strings.Fields(hdr)
				ax.Name = fs[0]
				for _, x := range fs[1:] {
					if strings.HasPrefix(x, "trigger=") {
						ax.Trigger = strings.Split(strings.TrimPrefix(x, "trigger="), ",")
					}
					if x == "optin" {
						ax.OptIn = true
					}
				}
				pendingAx = ax
				continue
			}
			cur.WriteString(ln)
			cur.WriteByte('\n')
		}
		if err := flush(); err != nil {
			return nil, err
		}
	}
	return p, nil
}

func classify(fm *Sexp) (*PreItem, error) {
	if !fm.IsL || len(fm.List) == 0 {
		return nil, fmt.Errorf("bad top-level form %s", fm)
	}
	it := &PreItem{Text: fm.String(), Syms: map[string]bool{}}
	fm.atoms(it.Syms)
	switch fm.List[0].Atom {
	case "declare-sort":
		it.Kind = "sort"
		it.Name = fm.List[1].Atom
	case "declare-datatypes":
		it.Kind = "datatype"
		// ((Name 0)) (((ctor (f S)...)))
		it.Name = fm.List[1].List[0].List[0].Atom
	case "declare-fun":
		it.Kind = "declare"
		it.Name = fm.List[1].Atom
		for _, a := range fm.List[2].List {
			it.ArgS = append(it.ArgS, a.String())
		}
		it.ResS = fm.List[3].String()
	case "declare-const":
		it.Kind = "declare"
		it.Name = fm.List[1].Atom
		it.ResS = fm.List[2].String()
	case "define-fun", "define-fun-rec":
		it.Kind = "define"
		it.Name = fm.List[1].Atom
		for _, a := range fm.List[2].List {
			it.ArgS = append(it.ArgS, a.List[1].String())
		}
		it.ResS = fm.List[3].String()
	case "assert":
		it.Kind = "axiom"
	default:
		return nil, fmt.Errorf("unsupported prelude form %s", fm.List[0].Atom)
	}
	return it, nil
}

// selectPrelude returns the prelude text needed by a query mentioning syms,
// and the names of the axioms included.
func (p *Prelude) selectPrelude(syms map[string]bool, uses map[string]bool) (string, []string) {
	have := map[string]bool{}
	for s := range syms {
		have[s] = true
	}
	inc := map[*PreItem]bool{}
	changed := true
	for changed {
		changed = false
		for _, it := range p.Items {
			if inc[it] {
				continue
			}
			take := false
			if it.Kind == "axiom" && it.OptIn && !uses[it.Name] {
				continue
			}
			if it.Kind == "axiom" {
				trig := it.Trigger
				if len(trig) == 0 {
					// default: all non-builtin prelude symbols it mentions
					for s := range it.Syms {
						if _, ok := p.BySym[s]; ok && p.BySym[s].Kind != "sort" && p.BySym[s].Kind != "datatype" {
							trig = append(trig, s)
						}
					}
				}
				take = len(trig) > 0
				for _, s := range trig {
					if !have[s] {
						take = false
					}
				}
			} else {
				take = have[it.Name]
			}
			if take {
				inc[it] = true
				changed = true
				for s := range it.Syms {
					if _, ok := p.BySym[s]; ok && !have[s] {
						have[s] = true
					}
				}
			}
		}
	}
	var b strings.Builder
	var axs []string
	for _, it := range p.Items {
		if inc[it] {
			b.WriteString(it.Text)
			b.WriteByte('\n')
			if it.Kind == "axiom" {
				axs = append(axs, it.Name)
			}
		}
	}
	return b.String(), axs
}

// symsOfText returns the identifier-like atoms of SMT text.
func symsOfText(txt string) map[string]bool {
	m := map[string]bool{}
	cur := strings.Builder{}
	fl := func() {
		if cur.Len() > 0 {
			m[cur.String()] = true
			cur.Reset()
		}
	}
	for i := 0; i < len(txt); i++ {
		c := txt[i]
		if c == ' ' || c == '(' || c == ')' || c == '\n' || c == '\t' {
			fl()
		} else {
			cur.WriteByte(c)
		}
	}
	fl()
	return m
}
