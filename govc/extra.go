package main

import "fmt"

// runExtraEngine dispatches to the engines that are not the SMT VC engine.
func runExtraEngine(eng *Engine, spec, prop, tier string, seed int, verif, repo string) ([]*Obligation, map[string]interface{}, error) {
	return nil, nil, fmt.Errorf("unknown engine %q", spec)
}
