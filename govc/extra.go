package main

import (
	"encoding/json"
	"fmt"
	"os"
	"strings"
)

// runExtraEngine dispatches to the engines that are not the SMT VC engine.
func runExtraEngine(eng *Engine, spec, prop, tier string, seed int, verif, repo string) ([]*Obligation, map[string]interface{}, error) {
	props := []string{prop}
	switch spec {
	case "effects:entropy":
		return eng.effectsEntropy(props), nil, nil
	case "effects:raw-draw":
		return eng.effectsRawDraw(props), nil, nil
	case "effects:no-recover":
		return eng.effectsNoRecover(props), nil, nil
	case "effects:frames":
		return eng.effectsFrames(props), nil, nil
	case "effects:globals":
		return eng.effectsGlobals(props), nil, nil
	case "effects:secrecy":
		return eng.secrecy(props), nil, nil
	case "bounded:charcore":
		return runBounded(verif, repo, "charcore", prop, tier, seed, "spg/bounded/charcore")
	case "bounded:c16":
		return runBounded(verif, repo, "c16", prop, tier, seed, "spg/bounded/presets")
	case "ground:c16":
		obs, cov := eng.groundC16()
		return obs, cov, nil
	}
	return nil, nil, fmt.Errorf("unknown engine %q", spec)
}

// runBounded runs a harness as a bounded check that is part of the verdict (labelled bounded,
// never counted as proved): its hits become violated obligations, its statistics go to evidence.
func runBounded(verif, repo, harness, prop, tier string, seed int, obl string) ([]*Obligation, map[string]interface{}, error) {
	statsFile, err := os.CreateTemp("", "verif-stats-")
	if err != nil {
		return nil, nil, err
	}
	statsFile.Close()
	defer os.Remove(statsFile.Name())
	os.Setenv("VERIF_REPLAY_STATS", statsFile.Name())
	defer os.Unsetenv("VERIF_REPLAY_STATS")
	hits, log, err := runHarness(verif, repo, harness, replayReq{Property: prop, Tier: tier, Seed: seed})
	if err != nil {
		return nil, nil, err
	}
	parts := strings.SplitN(obl, "/", 3)
	o := &Obligation{Func: parts[0], Kind: parts[1], Name: parts[2], Props: []string{prop}, Solver: "bounded"}
	cov := map[string]interface{}{}
	var stats map[string]interface{}
	if b, err := os.ReadFile(statsFile.Name()); err == nil && len(b) > 0 {
		json.Unmarshal(b, &stats)
	}
	if stats == nil && len(hits) == 0 {
		o.Result = "unknown"
		o.Raw = "bounded harness did not complete: " + trunc(log, 1500)
		return []*Obligation{o}, cov, nil
	}
	cov["bounded_standins"] = []interface{}{map[string]interface{}{"harness": harness, "stats": stats, "note": "bounded check by execution of the real code; not counted as proved"}}
	for _, k := range []string{"evaluations", "distinct_nontrivial", "rule", "samples", "exhaustive"} {
		if v, ok := stats[k]; ok {
			if f, isF := v.(float64); isF {
				cov[k] = int(f)
			} else {
				cov[k] = v
			}
		}
	}
	if len(hits) > 0 {
		o.Result = "violated"
		o.Raw = hits[0].Observed
		o.Input, o.Observed, o.Required = hits[0].Input, hits[0].Observed, hits[0].Required
	} else {
		o.Result = "holds"
	}
	return []*Obligation{o}, cov, nil
}
