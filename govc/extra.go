package main

import "fmt"

// runExtraEngine dispatches to the engines that are not the SMT VC engine.
func runExtraEngine(eng *Engine, spec, prop, tier string, seed int, verif, repo string) ([]*Obligation, map[string]interface{}, error) {
	props := []string{prop}
	switch spec {
	case "effects:entropy":
		return eng.effectsEntropy(props), nil, nil
	case "effects:no-recover":
		return eng.effectsNoRecover(props), nil, nil
	case "effects:frames":
		return eng.effectsFrames(props), nil, nil
	case "effects:globals":
		return eng.effectsGlobals(props), nil, nil
	case "effects:secrecy":
		return eng.secrecy(props), nil, nil
	}
	return nil, nil, fmt.Errorf("unknown engine %q", spec)
}
