package main

// Symbolic execution of go/ssa functions, cut at loop headers, producing one
// SMT query per (obligation, path).

import (
	"math/big"
	"fmt"
	"go/ast"
	"go/token"
	"go/types"
	"os"
	"sort"
	"strings"

	"golang.org/x/tools/go/ssa"
)

type Obligation struct {
	Func   string
	Kind   string // pre post inv-init inv-preserve panic panic-must bounds nil div0 typeassert makeslice subset bind frame
	Name   string // stable name within function+kind
	Props  []string
	Goal   string
	Decls  string
	Where  string
	Trace  []string
	Inputs []InputTerm // terms to evaluate in a model
	// filled by solving
	Result  string // unsat sat unknown
	Solver  string
	Time    float64
	Model   map[string]string
	Raw     string
	File    string
	Canary  bool
	Uses    map[string]bool
	Safety  bool   // absence-of-panic obligation (counts only for properties that claim totality)
	Clause  string // name of the contract clause the goal comes from
	Variant string
	// concrete failing input found by an engine that evaluates rather than proves
	Input    interface{}
	Observed string
	Required string
}

type InputTerm struct {
	Name string
	Term string
}

func (o *Obligation) ID() string { return o.Func + "/" + o.Kind + "/" + o.Name }

type Loop struct {
	fn       *ssa.Function
	header   *ssa.BasicBlock
	blocks   map[*ssa.BasicBlock]bool
	ordinal  int
	stmt     ast.Stmt
	enumKey  string // ghost key of the enumerator consumed in the header (map / set ranges)
	rangeIdx *ssa.Phi
}

type FnExec struct {
	eng          *Engine
	fn           *ssa.Function
	fc           *FuncContract
	entry        *State
	params       map[string]Val
	loops        map[*ssa.Function][]*Loop
	paths        int
	maxPath      int
	inputs       []InputTerm
	props        []string // properties of all clauses of this function (for safety obligations)
	unsupported  []string
	frameN       int
	merge        bool
	pending      map[string]*pendingJoin
	pendingOrder []string
	flat         map[*Loop]int // loop -> number under which the contract of fx.fn knows it (loops of inlined helpers included)
}

type unsupportedErr struct{ msg string }

func (fx *FnExec) unsupp(f string, a ...interface{}) {
	panic(unsupportedErr{fmt.Sprintf(f, a...)})
}

// ---------- loops ----------

func (fx *FnExec) loopsOf(fn *ssa.Function) []*Loop {
	if ls, ok := fx.loops[fn]; ok {
		return ls
	}
	var ls []*Loop
	byHeader := map[*ssa.BasicBlock]*Loop{}
	for _, b := range fn.Blocks {
		for _, s := range b.Succs {
			if s.Dominates(b) { // back edge b -> s
				lp := byHeader[s]
				if lp == nil {
					lp = &Loop{fn: fn, header: s, blocks: map[*ssa.BasicBlock]bool{s: true}}
					byHeader[s] = lp
					ls = append(ls, lp)
				}
				// collect body: nodes reaching b without passing s
				stack := []*ssa.BasicBlock{b}
				for len(stack) > 0 {
					x := stack[len(stack)-1]
					stack = stack[:len(stack)-1]
					if lp.blocks[x] {
						continue
					}
					lp.blocks[x] = true
					for _, p := range x.Preds {
						stack = append(stack, p)
					}
				}
			}
		}
	}
	// order by source position of the corresponding statements
	var stmts []ast.Stmt
	if syn := fn.Syntax(); syn != nil {
		var body *ast.BlockStmt
		switch n := syn.(type) {
		case *ast.FuncDecl:
			body = n.Body
		case *ast.FuncLit:
			body = n.Body
		}
		if body != nil {
			ast.Inspect(body, func(n ast.Node) bool {
				switch s := n.(type) {
				case *ast.FuncLit:
					return false
				case *ast.ForStmt:
					stmts = append(stmts, s)
				case *ast.RangeStmt:
					stmts = append(stmts, s)
				}
				return true
			})
		}
	}
	// match every SSA loop to the innermost for/range statement that contains all of its
	// positioned (non-phi) instructions; the ordinal is the statement's index in source order
	for _, lp := range ls {
		var ps []token.Pos
		for b := range lp.blocks {
			for _, in := range b.Instrs {
				switch x := in.(type) {
				case *ssa.Phi:
				case *ssa.DebugRef:
					if _, isPhi := x.X.(*ssa.Phi); !isPhi && x.Expr.Pos().IsValid() {
						ps = append(ps, x.Expr.Pos())
					}
				default:
					if p := in.Pos(); p.IsValid() {
						ps = append(ps, p)
					}
				}
			}
		}
		best := -1
		for i, s := range stmts {
			if len(ps) == 0 {
				break
			}
			all := true
			for _, p := range ps {
				if p < s.Pos() || p > s.End() {
					all = false
					break
				}
			}
			if all && (best < 0 || (stmts[best].Pos() <= s.Pos() && s.End() <= stmts[best].End())) {
				best = i
			}
		}
		if best >= 0 {
			lp.stmt = stmts[best]
			lp.ordinal = best + 1
		}
	}
	// loops that could not be matched get ordinals after the matched ones (contracts will not bind to them)
	used := map[int]bool{}
	for _, lp := range ls {
		if lp.ordinal > 0 {
			if used[lp.ordinal] {
				lp.ordinal, lp.stmt = 0, nil
			} else {
				used[lp.ordinal] = true
			}
		}
	}
	next := len(stmts) + 1
	for _, lp := range ls {
		if lp.ordinal == 0 {
			lp.ordinal = next
			next++
		}
	}
	sort.SliceStable(ls, func(i, j int) bool { return ls[i].ordinal < ls[j].ordinal })
	for _, lp := range ls {
		for _, in := range lp.header.Instrs {
			if ph, ok := in.(*ssa.Phi); ok && ph.Comment == "rangeindex" {
				lp.rangeIdx = ph
			}
			if nx, ok := in.(*ssa.Next); ok {
				lp.enumKey = fx.enumKeyFor(nx.Iter)
			}
			if u, ok := in.(*ssa.UnOp); ok && u.Op == token.ARROW {
				lp.enumKey = fx.enumKeyFor(u.X)
			}
		}
	}
	if fx.loops == nil {
		fx.loops = map[*ssa.Function][]*Loop{}
	}
	fx.loops[fn] = ls
	return ls
}

func (fx *FnExec) enumKeyFor(v ssa.Value) string {
	return fmt.Sprintf("visited@%s@%s", fx.eng.fnKey(v.Parent()), v.Name())
}

func (fx *FnExec) headerLoop(b *ssa.BasicBlock) *Loop {
	for _, lp := range fx.loopsOf(b.Parent()) {
		if lp.header == b {
			return lp
		}
	}
	return nil
}

// ---------- entry ----------

func (fx *FnExec) newParam(st *State, name string, t types.Type) Val {
	eng := fx.eng
	srt := eng.sorts.sortOf(t)
	n := eng.fresh(st, "in_"+name, srt)
	v := Val{T: n, S: srt, GT: t}
	st.assume(eng.sorts.typeInv(t, n))
	st.assume(fx.allocatedInv(st, v))
	return v
}

// allocatedInv: references held by a value are at most the allocation counter.
func (fx *FnExec) allocatedInv(st *State, v Val) string {
	if v.GT == nil {
		return ""
	}
	return fx.eng.sorts.allocInv(v.GT, v.T, st.alloc)
}

func (fx *FnExec) run() {
	eng := fx.eng
	st := &State{heap: map[string]string{}, ghost: map[string]string{}, vals: map[ssa.Value]Val{}, locs: map[ssa.Value]*Loc{}, active: map[*Loop]*LoopCtx{}}
	a0 := "alloc_0"
	if _, ok := eng.globalsDecl[a0]; !ok {
		eng.globalsDecl[a0] = "(declare-const alloc_0 Int)"
		eng.globalsOrder = append(eng.globalsOrder, a0)
		eng.globalAx[a0] = []string{"(<= 0 alloc_0)"}
	}
	st.alloc = a0
	fx.params = map[string]Val{}
	var args []Val
	for _, p := range fx.fn.Params {
		v := fx.newParam(st, p.Name(), p.Type())
		fx.params[p.Name()] = v
		args = append(args, v)
		fx.inputs = append(fx.inputs, InputTerm{p.Name(), v.T})
	}
	for old, news := range eng.renamesOf(fx.fn) {
		if _, have := fx.params[old]; !have {
			for _, nn := range news {
				if v, ok := fx.params[nn]; ok {
					fx.params[old] = v // a renamed parameter: the contract's name denotes it
				}
			}
		}
	}
	for _, fv := range fx.fn.FreeVars {
		// closures verified on their own: free variables are pointers to cells
		v := fx.newParam(st, fv.Name(), fv.Type())
		if _, isP := derefType(fv.Type()); isP {
			st.assume("(> " + v.T + " 0)") // a captured variable's cell
		}
		st.vals[fv] = v
		fx.params[fv.Name()] = v
	}
	if fx.eng.touchFunc(fx.fn)["ghost:pos"] {
		pos, tape := eng.ghostGet(st, "pos"), eng.ghostGet(st, "tape")
		for k := 0; k < 16; k++ {
			fx.inputs = append(fx.inputs, InputTerm{fmt.Sprintf("tape+%d", k), fmt.Sprintf("(select %s (+ %s %d))", tape, pos, k)})
		}
	}
	if fx.fc != nil {
		for _, g := range fx.fc.Ghosts {
			st.ghost["fg:"+fx.fc.Key+":"+g] = eng.fresh(st, "ghost_"+g, fx.fc.ghostSort(g))
		}
	}
	fx.entry = st.fork()
	if fx.fc != nil {
		env := fx.envFor(st, fx.fn, nil)
		for _, c := range fx.fc.Requires {
			if strings.HasPrefix(c.Name, "init.") {
				// A-INIT: main starts in the state the package initialiser leaves: the clause must be a postcondition of init
				okInit := false
				if ic := eng.contracts.Funcs[fx.fn.Pkg.Pkg.Name()+".init"]; ic != nil && fx.fn.Name() == "main" {
					for _, e := range ic.Ensures {
						if e.Name == strings.TrimPrefix(c.Name, "init.") && strings.Join(strings.Fields(e.Text), " ") == strings.Join(strings.Fields(c.Text), " ") && !e.Trusted {
							okInit = true
						}
					}
				}
				if !okInit {
					fx.bindFail(c, fmt.Errorf("precondition %s is not a (proved) postcondition of the package initialiser with the same text", c.Name))
					continue
				}
				eng.assumptions["A-INIT: main starts in the state the package initialiser leaves (its preconditions named init.* are the proved postconditions of init)"] = true
			}
			f, err := fx.safeTr(env, c)
			if err != nil {
				fx.bindFail(c, err)
				continue
			}
			st.assume(f)
		}
		fx.entry = st.fork()
	}
	if _, ok := eng.ghosts["exitcode"]; ok && (fx.eng.touchFunc(fx.fn)["ghost:exitcode"] || fx.pkgContract() != nil) {
		st.assume("(= " + eng.ghostGet(st, "exitcode") + " (- 1))") // the process is running when a function is entered
	}
	if fx.isPkgInit() {
		// Go zero-initialises package-level variables before the initialiser runs
		var names []string
		for n, m := range fx.fn.Pkg.Members {
			if g, ok := m.(*ssa.Global); ok && g.Object() != nil {
				names = append(names, n)
			}
		}
		sort.Strings(names)
		for _, n := range names {
			g := fx.fn.Pkg.Members[n].(*ssa.Global)
			tv := g.Object().(*types.Var)
			comp := eng.regPtr(tv.Type())
			st.assume("(= " + sel(eng.heapGet(st, comp), eng.globalAddr(tv)) + " " + eng.sorts.zero(tv.Type()) + ")")
		}
	}
	if pc := fx.pkgContract(); pc != nil {
		// package section: definitions of spec functions; facts about never-written package state (proved for init)
		env := fx.envFor(st, fx.fn, nil)
		env.fc = pc
		cls := append([]*Clause{}, pc.Specs...)
		if !fx.isPkgInit() {
			cls = append(cls, pc.PkgInvs...)
			fx.eng.assumptions["A-INIT: every function of package "+fx.fn.Pkg.Pkg.Name()+" runs after the package initialiser; the package invariants (proved as postconditions of init) hold at its entry because no function writes the package state they mention (frame obligations)"] = true
		}
		for _, c := range cls {
			f, err := fx.safeTr(env, c)
			if err != nil {
				fx.bindFail(c, err)
				continue
			}
			st.assume(f)
		}
		fx.entry = st.fork()
	}
	// vacuity: the precondition must be satisfiable
	fx.emit(st, &Obligation{Kind: "vacuity", Name: "requires-sat", Goal: "false", Canary: true})
	fx.pending = map[string]*pendingJoin{}
	fx.runFunc(st, fx.fn, args, func(s *State, res []Val) { fx.checkPost(s, res) }, 0)
	fx.drainJoins()
}

func (fx *FnExec) pkgContract() *FuncContract {
	fn := fx.fn
	for fn.Parent() != nil {
		fn = fn.Parent()
	}
	if fn.Pkg == nil {
		return nil
	}
	return fx.eng.pkgContract[fn.Pkg.Pkg.Name()]
}

func (fx *FnExec) isPkgInit() bool {
	return fx.fn.Name() == "init" && fx.fn.Synthetic != "" && fx.fn.Parent() == nil
}

func (fx *FnExec) safeTr(env *Env, c *Clause) (f string, err error) {
	defer func() {
		if r := recover(); r != nil {
			if te, ok := r.(trErr); ok {
				err = fmt.Errorf("%s", te.msg)
				return
			}
			if ue, ok := r.(unsupportedErr); ok {
				err = fmt.Errorf("%s", ue.msg)
				return
			}
			panic(r)
		}
	}()
	return env.trBool(c.Expr), nil
}

func (fx *FnExec) bindFail(c *Clause, err error) {
	fx.eng.obligs = append(fx.eng.obligs, &Obligation{Func: fx.eng.fnKey(fx.fn), Kind: "bind", Name: c.Kind + "." + c.Name, Props: c.Props,
		Goal: "false", Result: "stale", Raw: "STALE-CONTRACT: " + err.Error(), Where: fmt.Sprintf("%s:%d", c.Func, c.Line)})
}

// envFor builds the translation environment for clauses of fn's contract at state st.
func (fx *FnExec) envFor(st *State, fn *ssa.Function, results []Val) *Env {
	env := &Env{fx: fx, cur: st, old: fx.entry, vars: map[string]Val{}, fc: fx.eng.contractOf(fn)}
	if env.fc == nil && fn != fx.fn {
		env.fc = fx.contractFor(fn)
	}
	if fn.Pkg != nil {
		env.pkg = fn.Pkg.Pkg
	} else if fn.Parent() != nil && fn.Parent().Pkg != nil {
		env.pkg = fn.Parent().Pkg.Pkg
	}
	for k, v := range fx.params {
		env.vars[k] = v
	}
	for _, fv := range fx.fn.FreeVars {
		if pv, ok := fx.params[fv.Name()]; ok {
			if et, isP := derefType(fv.Type()); isP {
				env.vars[fv.Name()] = fx.loadAt(st, &Loc{Kind: LDeref, Ptr: pv, ET: et})
			}
		}
	}
	if results != nil {
		sig := fn.Signature
		for i, r := range results {
			env.vars[fmt.Sprintf("res%d", i)] = r
			if i == 0 {
				env.vars["res"] = r
			}
			if n := sig.Results().At(i).Name(); n != "" && n != "_" {
				env.vars[n] = r
			}
			if i == sig.Results().Len()-1 && types.Identical(sig.Results().At(i).Type(), types.Universe.Lookup("error").Type()) {
				env.vars["err"] = r
			}
		}
	}
	return env
}

func (fx *FnExec) checkPost(st *State, res []Val) {
	if pc := fx.pkgContract(); pc != nil && fx.isPkgInit() {
		env := fx.envFor(st, fx.fn, res)
		env.fc = pc
		for _, c := range pc.PkgInvs {
			f, err := fx.safeTr(env, c)
			if err != nil {
				fx.bindFail(c, err)
				continue
			}
			fx.emit(st, &Obligation{Kind: "post", Name: "package." + c.Name, Props: c.Props, Goal: f, Clause: c.Name})
		}
	}
	if fx.fc == nil {
		return
	}
	env := fx.envFor(st, fx.fn, res)
	if len(fx.fc.Lemmas) > 0 {
		st = st.fork() // lemmas are assumed only for this return path's remaining obligations
		env = fx.envFor(st, fx.fn, res)
		for _, c := range fx.fc.Lemmas {
			f, err := fx.safeTr(env, c)
			if err != nil {
				fx.bindFail(c, err)
				continue
			}
			fx.emit(st, &Obligation{Kind: "post", Name: "lemma." + c.Name, Props: c.Props, Goal: f, Clause: c.Name})
			st.assume(f)
		}
	}
	for _, c := range fx.fc.Ensures {
		if c.Kind == "ensures" && strings.HasPrefix(c.Name, "ghost.") {
			continue // ghost naming clauses are definitions, assumed by callers only
		}
		if c.Trusted {
			fx.eng.assumptions["TRUSTED postcondition "+c.Func+"/"+c.Name+": assumed by callers, not proved from the body (see the bounded check of that function)"] = true
			continue
		}
		f, err := fx.safeTr(env, c)
		if err != nil {
			fx.bindFail(c, err)
			continue
		}
		fx.emit(st, &Obligation{Kind: "post", Name: c.Name, Props: c.Props, Goal: f, Clause: c.Name})
	}
	// under an exact panic condition the function must not return normally
	for _, c := range append(append([]*Clause{}, fx.fc.Panics...), fx.fc.Raises...) {
		envE := fx.envFor(fx.entry, fx.fn, nil)
		envE.old = fx.entry
		f, err := fx.safeTr(envE, c)
		if err != nil {
			fx.bindFail(c, err)
			continue
		}
		fx.emit(st, &Obligation{Kind: "panic-must", Name: c.Name, Props: c.Props, Goal: not(f)})
	}
	fx.emit(st, &Obligation{Kind: "vacuity", Name: "return-reachable", Goal: "false", Canary: true})
}

// emit records an obligation with the current path condition.
func (fx *FnExec) emit(st *State, o *Obligation) {
	o.Func = fx.eng.fnKey(fx.fn)
	o.Decls = st.declsText()
	o.Trace = append([]string{}, st.trace...)
	o.Inputs = fx.inputs
	if len(o.Props) == 0 {
		o.Props = fx.props
	}
	if fx.fc != nil && len(fx.fc.Uses) > 0 {
		o.Uses = map[string]bool{}
		for _, u := range fx.fc.Uses {
			o.Uses[u] = true
		}
	}
	fx.eng.obligs = append(fx.eng.obligs, o)
}

func (fx *FnExec) safety(st *State, kind, name, goal string) {
	if goal == "true" {
		return
	}
	fx.emit(st, &Obligation{Kind: kind, Name: name, Goal: goal, Safety: kind != "subset"})
	st.assume(goal) // continue on the safe side only
}

// ---------- function bodies ----------

type cont func(st *State, results []Val)

func (fx *FnExec) runFunc(st *State, fn *ssa.Function, args []Val, k cont, depth int) {
	if len(fn.Blocks) == 0 {
		fx.unsupp("function %s has no body", fn)
	}
	if depth > 6 {
		fx.unsupp("inlining too deep at %s", fn)
	}
	for i, p := range fn.Params {
		st.vals[p] = args[i]
	}
	callerFrame, callerDepth := st.frameID, st.frameDepth
	fx.frameN++
	st.frameID, st.frameDepth = fx.frameN, callerDepth+1
	k2 := func(s *State, res []Val) {
		s.frameID, s.frameDepth = callerFrame, callerDepth
		k(s, res)
	}
	if fn == fx.fn && fx.isPkgInit() && len(fn.Blocks) > 1 && fn.Blocks[1].Comment == "init.start" {
		// package initialiser: runs exactly once (the init$guard test is the run-time's business)
		fx.execBlock(st, fn.Blocks[1], fn.Blocks[0], k2, depth)
		return
	}
	fx.execBlock(st, fn.Blocks[0], nil, k2, depth)
}

func (fx *FnExec) val(st *State, v ssa.Value) Val {
	eng := fx.eng
	switch c := v.(type) {
	case *ssa.Const:
		return eng.constVal(c.Value, c.Type())
	case *ssa.Global:
		tv, _ := c.Object().(*types.Var)
		if tv == nil {
			fx.unsupp("global without object %s", c)
		}
		return Val{T: eng.globalAddr(tv), S: SInt, GT: c.Type()}
	case *ssa.Function:
		return Val{T: eng.funcConst(c), S: SInt, GT: c.Type(), M: &Closure{Fn: c}}
	case *ssa.Builtin:
		fx.unsupp("builtin as value")
	}
	if x, ok := st.vals[v]; ok {
		return x
	}
	if _, ok := st.locs[v]; ok {
		fx.unsupp("address %s (%s) used as a value", v.Name(), v)
	}
	fx.unsupp("value %s of %s not available", v.Name(), v.Parent())
	return Val{}
}

func (eng *Engine) funcConst(f *ssa.Function) string {
	name := "fn_" + mangle(eng.fnKey(f))
	if _, ok := eng.globalsDecl[name]; !ok {
		eng.globalsDecl[name] = "(declare-const " + name + " Int)"
		eng.globalsOrder = append(eng.globalsOrder, name)
		eng.globalAx[name] = []string{"(< " + name + " 0)"}
	}
	return name
}

func (fx *FnExec) evalPhis(st *State, b *ssa.BasicBlock, pred *ssa.BasicBlock) {
	if pred == nil {
		return
	}
	idx := -1
	for i, p := range b.Preds {
		if p == pred {
			idx = i
		}
	}
	type pv struct {
		ph *ssa.Phi
		v  Val
		l  *Loc
	}
	var news []pv
	for _, in := range b.Instrs {
		ph, ok := in.(*ssa.Phi)
		if !ok {
			break
		}
		e := ph.Edges[idx]
		if l, ok := st.locs[e]; ok {
			news = append(news, pv{ph, Val{}, l})
			continue
		}
		news = append(news, pv{ph, fx.val(st, e), nil})
	}
	for _, n := range news {
		if n.l != nil {
			st.locs[n.ph] = n.l
			delete(st.vals, n.ph)
		} else {
			n.v.GT = n.ph.Type()
			st.vals[n.ph] = n.v
			delete(st.locs, n.ph)
		}
	}
}

func (fx *FnExec) execBlock(st *State, b *ssa.BasicBlock, pred *ssa.BasicBlock, k cont, depth int) {
	fx.paths++
	if fx.paths > fx.maxPath {
		fx.unsupp("path limit exceeded in %s", fx.fn)
	}
	// leaving loops
	for lp := range st.active {
		if lp.fn == b.Parent() && !lp.blocks[b] {
			delete(st.active, lp)
		}
	}
	st.trace = append(st.trace, fmt.Sprintf("%s#%d", b.Parent().Name(), b.Index))
	if lp := fx.headerLoop(b); lp != nil {
		if _, on := st.active[lp]; on && pred != nil && lp.blocks[pred] {
			fx.evalPhis(st, b, pred)
			fx.ghostUpdates(st, lp)
			fx.checkInvariants(st, lp, "inv-preserve")
			return
		}
		fx.evalPhis(st, b, pred)
		fx.ghostUpdates(st, lp)
		fx.checkInvariants(st, lp, "inv-init")
		ctx := &LoopCtx{loop: lp, entry: st.fork()}
		fx.havocLoop(st, lp)
		st.active[lp] = ctx
		fx.assumeInvariants(st, lp)
		fx.emit(st, &Obligation{Kind: "vacuity", Name: fmt.Sprintf("loop%d-invariant-sat", fx.ord(lp)), Goal: "false", Canary: true})
	} else {
		fx.evalPhis(st, b, pred)
		if fx.merge && len(b.Preds) >= 2 && !fx.noMergeAt(b) {
			fx.arriveAtJoin(st, b, k, depth)
			return
		}
	}
	fx.execFrom(st, b, 0, k, depth)
}

func (fx *FnExec) execFrom(st *State, b *ssa.BasicBlock, idx int, k cont, depth int) {
	for i := idx; i < len(b.Instrs); i++ {
		in := b.Instrs[i]
		switch in := in.(type) {
		case *ssa.Phi, *ssa.DebugRef:
			continue
		case *ssa.If:
			c := fx.val(st, in.Cond)
			s1 := st.fork()
			s1.assume(c.T)
			fx.execBlock(s1, b.Succs[0], b, k, depth)
			st.assume(not(c.T))
			fx.execBlock(st, b.Succs[1], b, k, depth)
			return
		case *ssa.Jump:
			fx.execBlock(st, b.Succs[0], b, k, depth)
			return
		case *ssa.Return:
			var res []Val
			for _, r := range in.Results {
				v := fx.val(st, r)
				res = append(res, v)
			}
			// leaving all loops of this function
			for lp := range st.active {
				if lp.fn == b.Parent() {
					delete(st.active, lp)
				}
			}
			if b.Parent() == fx.fn && depth == 0 {
				fx.returnGhosts(st, in)
			}
			k(st, res)
			return
		case *ssa.Panic:
			fx.panicPath(st, "explicit", in)
			return
		case *ssa.Call:
			// calls may fork: continue in continuation
			fx.doCall(st, in, func(s *State, res []Val) {
				if len(res) == 1 {
					r := res[0]
					if r.GT == nil {
						r.GT = in.Type()
					}
					s.vals[in] = r
				} else if len(res) > 1 {
					s.vals[in] = Val{T: "tuple", S: "TUPLE", M: res, GT: in.Type()}
				}
				fx.execFrom(s, b, i+1, k, depth)
			}, depth)
			return
		case *ssa.Next:
			fx.doNext(st, in, func(s *State) { fx.execFrom(s, b, i+1, k, depth) })
			return
		case *ssa.UnOp:
			if in.Op == token.ARROW {
				fx.doRecv(st, in, func(s *State) { fx.execFrom(s, b, i+1, k, depth) })
				return
			}
			fx.step(st, in)
		default:
			fx.step(st, in)
		}
	}
}

func (fx *FnExec) panicPath(st *State, why string, in ssa.Instruction) {
	// an explicit panic must be covered by an exact panics clause of the function under verification
	var conds []string
	var props []string
	if fx.fc != nil {
		envE := fx.envFor(fx.entry, fx.fn, nil)
		for _, c := range append(append([]*Clause{}, fx.fc.Panics...), fx.fc.Raises...) {
			f, err := fx.safeTr(envE, c)
			if err != nil {
				fx.bindFail(c, err)
				continue
			}
			conds = append(conds, f)
			props = append(props, c.Props...)
		}
	}
	pos := fx.eng.fset.Position(in.Pos())
	name := fmt.Sprintf("%s@%s", why, fx.siteName(in))
	_ = pos
	fx.emit(st, &Obligation{Kind: "panic", Name: name, Props: props, Goal: or(conds...), Safety: true})
}

// siteName gives a stable-ish name for an instruction: function-relative ordinal of its kind.
func (fx *FnExec) siteName(in ssa.Instruction) string {
	fn := in.Parent()
	n := 0
	kind := fmt.Sprintf("%T", in)
	kind = strings.TrimPrefix(kind, "*ssa.")
	for _, b := range fn.Blocks {
		for _, x := range b.Instrs {
			if fmt.Sprintf("%T", x) == fmt.Sprintf("%T", in) {
				n++
			}
			if x == in {
				nm := fn.Name()
				return fmt.Sprintf("%s.%s%d", nm, kind, n)
			}
		}
	}
	return kind
}

// ---------- invariants ----------

func (fx *FnExec) invClauses(lp *Loop) []*Clause {
	fc := fx.contractFor(lp.fn)
	if fc == nil {
		return nil
	}
	var out []*Clause
	for _, c := range fc.Invs {
		if c.Loop == fx.ord(lp) {
			out = append(out, c)
		}
	}
	return out
}

func (fx *FnExec) loopEnv(st *State, lp *Loop) *Env {
	env := fx.envFor(st, lp.fn, nil)
	if lp.fn != fx.fn {
		// inlined callee: parameters are the callee's
		env.vars = map[string]Val{}
		for _, p := range lp.fn.Params {
			if v, ok := st.vals[p]; ok {
				env.vars[p.Name()] = v
			}
		}
	}
	env.loop = lp
	if ctx, ok := st.active[lp]; ok {
		env.loopEntry = ctx.entry
	} else {
		env.loopEntry = st
	}
	env.local = func(name string) (Val, bool) { return fx.resolveLocal(st, lp, name) }
	if lp.rangeIdx != nil {
		if v, ok := st.vals[lp.rangeIdx]; ok {
			env.vars["it"] = Val{T: "(+ " + v.T + " 1)", S: SInt}
		}
	} else if ph := counterPhi(lp); ph != nil {
		// "for i := 0; ...; i++": the counter is the number of completed iterations, like `it` of a range loop
		// (so a range loop rewritten as an index loop keeps its invariants)
		if v, ok := st.vals[ph]; ok {
			if _, own := env.vars["it"]; !own {
				env.vars["it"] = Val{T: v.T, S: SInt}
			}
		}
	}
	return env
}

// counterPhi: the unique header phi that starts at the constant 0 and is incremented by the constant 1 on every back edge.
func counterPhi(lp *Loop) *ssa.Phi {
	var found *ssa.Phi
	for _, in := range lp.header.Instrs {
		ph, ok := in.(*ssa.Phi)
		if !ok {
			continue
		}
		okPhi := true
		sawInit, sawStep := false, false
		for i, e := range ph.Edges {
			pred := lp.header.Preds[i]
			if lp.blocks[pred] {
				b, isB := e.(*ssa.BinOp)
				c1, isC := func() (*ssa.Const, bool) {
					if !isB {
						return nil, false
					}
					c, ok := b.Y.(*ssa.Const)
					return c, ok
				}()
				if !isB || b.Op != token.ADD || b.X != ssa.Value(ph) || !isC || c1.Value == nil || c1.Value.ExactString() != "1" {
					okPhi = false
				}
				sawStep = true
			} else {
				c, isC := e.(*ssa.Const)
				if !isC || c.Value == nil || c.Value.ExactString() != "0" {
					okPhi = false
				}
				sawInit = true
			}
		}
		if okPhi && sawInit && sawStep {
			if found != nil {
				return nil // ambiguous
			}
			found = ph
		}
	}
	return found
}

func (fx *FnExec) checkInvariants(st *State, lp *Loop, kind string) {
	env := fx.loopEnv(st, lp)
	for _, c := range fx.invClauses(lp) {
		f, err := fx.safeTr(env, c)
		if err != nil {
			fx.bindFail(c, err)
			continue
		}
		fx.emit(st, &Obligation{Kind: kind, Name: fmt.Sprintf("loop%d.%s", fx.ord(lp), c.Name), Props: c.Props, Goal: f, Clause: c.Name})
	}
}

func (fx *FnExec) assumeInvariants(st *State, lp *Loop) {
	env := fx.loopEnv(st, lp)
	for _, c := range fx.invClauses(lp) {
		f, err := fx.safeTr(env, c)
		if err != nil {
			continue
		}
		if f != "" && f != "true" {
			st.add("(assert " + f + ") ;@inv:" + c.Name)
		}
	}
}

// resolveLocal finds the SSA value of a source-level local variable at the head of a loop.
func (fx *FnExec) resolveLocal(st *State, lp *Loop, name string) (Val, bool) {
	shadow := false
	if strings.HasPrefix(name, "^") {
		shadow = true
		name = name[1:]
	}
	info := fx.eng.typesInfo(lp.fn)
	if info == nil || lp.stmt == nil {
		return Val{}, false
	}
	var pos token.Pos
	switch s := lp.stmt.(type) {
	case *ast.ForStmt:
		pos = s.Body.Lbrace + 1
	case *ast.RangeStmt:
		pos = s.Body.Lbrace + 1
	}
	// innermost scope at pos
	var scope *types.Scope
	for n, sc := range info.Scopes {
		_ = n
		if sc.Contains(pos) {
			if scope == nil || (scope.Pos() <= sc.Pos() && sc.End() <= scope.End()) {
				scope = sc
			}
		}
	}
	if scope == nil {
		return Val{}, false
	}
	// all variables visible at pos under the contract's name or, after a rename in /repo, under the new
	// name(s) of the variable(s) that carried it; innermost first. "^name" denotes the next one outward.
	names := append([]string{name}, fx.eng.renamesOf(lp.fn)[name]...)
	var cands []types.Object
	for sc := scope; sc != nil; sc = sc.Parent() {
		for _, n := range names {
			if o := sc.Lookup(n); o != nil && (o.Pos() < pos || !o.Pos().IsValid()) {
				dup := false
				for _, c := range cands {
					if c == o {
						dup = true
					}
				}
				if !dup {
					cands = append(cands, o)
				}
			}
		}
	}
	var obj types.Object
	switch {
	case !shadow && len(cands) >= 1:
		obj = cands[0]
	case shadow && len(cands) >= 2:
		obj = cands[1]
	case shadow && len(cands) == 1 && len(names) > 1:
		// the shadowing was removed by the rename: the outer variable is the only one left under these names
		obj = cands[0]
	}
	if obj == nil {
		// a loop that an "extract function" refactoring moved into a helper executed inline: names the helper
		// does not declare (the caller's receiver, an outer loop's counter) are those of the calling frames
		if lp.fn != fx.fn {
			for i := len(st.callStack) - 1; i >= 0; i-- {
				if v, ok := fx.resolveAt(st, st.callStack[i], name); ok {
					return v, true
				}
				if p, ok := fx.params[name]; ok && st.callStack[i].Parent() == fx.fn {
					return p, true
				}
			}
		}
		return Val{}, false
	}
	tv, ok := obj.(*types.Var)
	if !ok || tv.Parent() == nil || tv.Parent() == tv.Pkg().Scope() {
		return Val{}, false
	}
	if os.Getenv("GOVC_DEBUG") != "" {
		v, ok := fx.valueOfVar(st, lp, tv)
		fmt.Fprintf(os.Stderr, "resolve %s in loop %d of %s: obj@%v -> %v %v\n", name, lp.ordinal, lp.fn.Name(), fx.eng.fset.Position(tv.Pos()), v.T, ok)
	}
	return fx.valueOfVar(st, lp, tv)
}

func (fx *FnExec) valueOfVar(st *State, lp *Loop, tv *types.Var) (Val, bool) {
	fn := lp.fn
	// parameter?
	for _, p := range fn.Params {
		if p.Object() == tv {
			if v, ok := st.vals[p]; ok {
				return v, true
			}
		}
	}
	// address-taken local: an Alloc with the same position
	for _, l := range fn.Locals {
		if l.Pos() == tv.Pos() {
			if v, ok := st.vals[l]; ok {
				return fx.loadAt(st, &Loc{Kind: LDeref, Ptr: v, ET: tv.Type()}), true
			}
		}
	}
	for _, b := range fn.Blocks {
		for _, in := range b.Instrs {
			if a, ok := in.(*ssa.Alloc); ok && a.Pos() == tv.Pos() {
				if v, ok := st.vals[a]; ok {
					return fx.loadAt(st, &Loc{Kind: LDeref, Ptr: v, ET: tv.Type()}), true
				}
			}
		}
	}
	// debug references
	var inLoopPhi, inHeaderPure, outside ssa.Value
	sawInstr := false
	// candidate values of the variable: what debug references say, plus the operands of
	// the phi nodes among them (a definition that is only ever merged is not referenced itself)
	type cand struct {
		x   ssa.Value
		blk *ssa.BasicBlock // block of the referring instruction
	}
	var cands []cand
	seenV := map[ssa.Value]bool{}
	var addC func(x ssa.Value, blk *ssa.BasicBlock)
	addC = func(x ssa.Value, blk *ssa.BasicBlock) {
		if seenV[x] {
			return
		}
		seenV[x] = true
		cands = append(cands, cand{x, blk})
		if ph, ok := x.(*ssa.Phi); ok {
			for _, e := range ph.Edges {
				if _, isC := e.(*ssa.Const); !isC {
					addC(e, ph.Block())
				}
			}
		}
	}
	for _, b := range fn.Blocks {
		for _, in := range b.Instrs {
			d, ok := in.(*ssa.DebugRef)
			if !ok || d.Object() != tv || d.IsAddr {
				continue
			}
			addC(d.X, b)
		}
	}
	for _, c := range cands {
		x, b := c.x, c.blk
		xi, isInstr := x.(ssa.Instruction)
		switch {
		case isInstr && xi.Block() == lp.header:
			if _, isPhi := x.(*ssa.Phi); isPhi {
				inLoopPhi = x
			} else if lp.blocks[b] {
				inHeaderPure = x
			}
		case !isInstr:
			if !sawInstr {
				outside = x // parameter / constant: only when nothing better is known
			}
		case isInstr && !lp.blocks[xi.Block()] && xi.Block().Dominates(lp.header):
			if _, isPhi := x.(*ssa.Phi); isPhi && outside != nil && sawInstr {
				continue
			}
			outside = x
			sawInstr = true
		}
	}
	if os.Getenv("GOVC_DEBUG") != "" {
		fmt.Fprintf(os.Stderr, "  valueOfVar %s: phi=%v pure=%v outside=%v\n", tv.Name(), inLoopPhi, inHeaderPure, outside)
	}
	switch {
	case inLoopPhi != nil:
		if v, ok := st.vals[inLoopPhi]; ok {
			return v, true
		}
	case inHeaderPure != nil:
		if v, ok := fx.evalPure(st, inHeaderPure, 0); ok {
			return v, true
		}
	case outside != nil:
		if _, isC := outside.(*ssa.Const); isC {
			return fx.val(st, outside), true
		}
		if v, ok := st.vals[outside]; ok {
			return v, true
		}
	}
	return Val{}, false
}

// evalPure evaluates a side-effect-free SSA value of the loop header from the current phi values.
func (fx *FnExec) evalPure(st *State, v ssa.Value, d int) (Val, bool) {
	if d > 4 {
		return Val{}, false
	}
	if c, ok := v.(*ssa.Const); ok {
		return fx.eng.constVal(c.Value, c.Type()), true
	}
	if _, isPhi := v.(*ssa.Phi); isPhi {
		x, ok := st.vals[v]
		return x, ok
	}
	switch in := v.(type) {
	case *ssa.BinOp:
		a, ok1 := fx.evalPure(st, in.X, d+1)
		b, ok2 := fx.evalPure(st, in.Y, d+1)
		if ok1 && ok2 {
			return fx.binop(st, in, a, b, true), true
		}
		return Val{}, false
	}
	x, ok := st.vals[v]
	return x, ok
}

func isRangeIndexPhi(ph *ssa.Phi) bool {
	nInit, nStep := 0, 0
	for _, e := range ph.Edges {
		if c, ok := e.(*ssa.Const); ok && c.Value != nil && c.Value.ExactString() == "-1" {
			nInit++
			continue
		}
		if b, ok := e.(*ssa.BinOp); ok && b.Op == token.ADD && b.X == ssa.Value(ph) {
			if c, ok := b.Y.(*ssa.Const); ok && c.Value != nil && c.Value.ExactString() == "1" {
				nStep++
				continue
			}
		}
		return false
	}
	return nInit == 1 && nStep >= 1
}

// rangeBound returns the loop-invariant bound of a range-over-slice loop: header is
//
//	t1 = phi+1; t2 = t1 < bound; if t2 ...
func rangeBound(lp *Loop, ph *ssa.Phi) ssa.Value {
	var inc *ssa.BinOp
	for _, in := range lp.header.Instrs {
		if b, ok := in.(*ssa.BinOp); ok {
			if b.Op == token.ADD && b.X == ssa.Value(ph) {
				inc = b
			}
			if inc != nil && b.Op == token.LSS && b.X == ssa.Value(inc) {
				if bi, ok := b.Y.(ssa.Instruction); ok && !lp.blocks[bi.Block()] {
					if iff, ok := lp.header.Instrs[len(lp.header.Instrs)-1].(*ssa.If); ok && iff.Cond == ssa.Value(b) {
						return b.Y
					}
				}
			}
		}
	}
	return nil
}

func (fc *FuncContract) ghostSort(name string) string {
	if s, ok := fc.GhostSort[name]; ok {
		return s
	}
	return "(Array Int Int)"
}

// returnGhosts executes "atreturn ghost G[...] = e" clauses at a return of the function under verification.
func (fx *FnExec) returnGhosts(st *State, ret *ssa.Return) {
	fc := fx.fc
	if fc == nil {
		return
	}
	has := false
	for _, gu := range fc.GhostUpd {
		if gu.Loop == -1 {
			has = true
		}
	}
	if !has {
		return
	}
	env := fx.envFor(st, fx.fn, nil)
	env.local = func(name string) (Val, bool) { return fx.resolveAtReturn(st, ret, name) }
	for _, gu := range fc.GhostUpd {
		if gu.Loop != -1 {
			continue
		}
		key := "fg:" + fc.Key + ":" + gu.Name
		cur, ok := st.ghost[key]
		if !ok {
			continue
		}
		var iv, vv Val
		okTr := func() (ok bool) {
			defer func() {
				if r := recover(); r != nil {
					if _, isT := r.(trErr); isT {
						ok = false
						return
					}
					panic(r)
				}
			}()
			if gu.Idx != nil {
				iv = env.tr(gu.Idx)
			}
			vv = env.tr(gu.Val)
			return true
		}()
		if !okTr {
			if os.Getenv("GOVC_DEBUG") != "" {
				fmt.Fprintf(os.Stderr, "atreturn ghost %s: expression not available\n", gu.Name)
			}
			continue // the expression's locals are not defined on this return path
		}
		n := fx.eng.fresh(st, "ghost_"+gu.Name, fc.ghostSort(gu.Name))
		if gu.Idx != nil {
			st.assume("(= " + n + " " + store(cur, iv.T, vv.T) + ")")
		} else {
			st.assume("(= " + n + " " + vv.T + ")")
		}
		st.ghost[key] = n
	}
}

// resolveAtReturn: value of a source-level local at a return statement.
func (fx *FnExec) resolveAtReturn(st *State, ret0 *ssa.Return, name string) (Val, bool) {
	return fx.resolveAt(st, ret0, name)
}

// resolveAt: value of a source-level local just before instruction ret.
func (fx *FnExec) resolveAt(st *State, ret ssa.Instruction, name string) (Val, bool) {
	fn := ret.Parent()
	info := fx.eng.typesInfo(fn)
	if info == nil || !ret.Pos().IsValid() {
		return Val{}, false
	}
	pos := ret.Pos()
	var scope *types.Scope
	for n, sc := range info.Scopes {
		_ = n
		if sc.Contains(pos) {
			if scope == nil || (scope.Pos() <= sc.Pos() && sc.End() <= scope.End()) {
				scope = sc
			}
		}
	}
	if scope == nil {
		return Val{}, false
	}
	_, obj := scope.LookupParent(name, pos)
	if obj == nil {
		for _, nn := range fx.eng.renamesOf(fn)[name] {
			if _, obj = scope.LookupParent(nn, pos); obj != nil {
				break
			}
		}
	}
	tv, ok := obj.(*types.Var)
	if os.Getenv("GOVC_DEBUG") != "" {
		fmt.Fprintf(os.Stderr, "resolveAtReturn %s: scope=%v obj=%v\n", name, scope != nil, obj)
	}
	if !ok || tv.Parent() == nil || tv.Parent() == tv.Pkg().Scope() {
		return Val{}, false
	}
	var found Val
	have := false
	for _, b := range fn.Blocks {
		if b != ret.Block() && !b.Dominates(ret.Block()) {
			continue
		}
		for _, in := range b.Instrs {
			if in == ret {
				break
			}
			d, ok := in.(*ssa.DebugRef)
			if !ok || d.Object() != tv || d.IsAddr {
				continue
			}
			if c, isC := d.X.(*ssa.Const); isC {
				if !have {
					found, have = fx.eng.constVal(c.Value, c.Type()), true
				}
				continue
			}
			if v, ok := st.vals[d.X]; ok {
				found, have = v, true
			}
		}
	}
	return found, have
}

// ghostUpdates executes the "loop k ghost G[idx] = val" clauses when the body of loop k is entered.
func (fx *FnExec) ghostUpdates(st *State, lp *Loop) {
	fc := fx.contractFor(lp.fn)
	if fc == nil || fc != fx.fc {
		return
	}
	env := fx.loopEnv(st, lp)
	for _, gu := range fc.GhostUpd {
		if gu.Loop != fx.ord(lp) || gu.Loop < 0 {
			continue
		}
		key := "fg:" + fc.Key + ":" + gu.Name
		cur, ok := st.ghost[key]
		if !ok {
			fx.unsupp("ghost update of undeclared ghost %s", gu.Name)
		}
		var iv, vv Val
		func() {
			defer func() {
				if r := recover(); r != nil {
					if te, ok := r.(trErr); ok {
						fx.unsupp("ghost update %s: %s", gu.Name, te.msg)
					}
					panic(r)
				}
			}()
			if gu.Idx != nil {
				iv = env.tr(gu.Idx)
			}
			vv = env.tr(gu.Val)
		}()
		n := fx.eng.fresh(st, "ghost_"+gu.Name, fc.ghostSort(gu.Name))
		if gu.Idx != nil {
			st.assume("(= " + n + " " + store(cur, iv.T, vv.T) + ")")
		} else {
			st.assume("(= " + n + " " + vv.T + ")")
		}
		st.ghost[key] = n
	}
}

// havocLoop forgets everything the loop may change.
func (fx *FnExec) havocLoop(st *State, lp *Loop) {
	eng := fx.eng
	for _, in := range lp.header.Instrs {
		ph, ok := in.(*ssa.Phi)
		if !ok {
			break
		}
		if _, isLoc := st.locs[ph]; isLoc {
			fx.unsupp("address-valued phi at loop head")
		}
		old := st.vals[ph]
		srt := eng.sorts.sortOf(ph.Type())
		n := eng.fresh(st, "lp_"+ph.Comment+"_"+ph.Name(), srt)
		nv := Val{T: n, S: srt, GT: ph.Type(), M: old.M}
		st.assume(eng.sorts.typeInv(ph.Type(), n))
		st.vals[ph] = nv
		if ph.Comment == "rangeindex" && isRangeIndexPhi(ph) {
			// compiler-generated index of a range-over-slice loop: starts at -1, incremented by 1
			// while index+1 < bound, where bound is computed before the loop
			st.assume("(>= " + n + " (- 1))")
			if bnd := rangeBound(lp, ph); bnd != nil {
				if bv, ok := st.vals[bnd]; ok {
					st.assume("(or (<= (+ " + n + " 1) " + bv.T + ") (< " + bv.T + " 0))")
				}
			}
		} else if ph == counterPhi(lp) {
			// "for i := 0; i < B; i++" with B fixed during the loop: 0 <= i, and i <= B unless B is negative
			// (inductive for any body that does not assign i; the phi has no other incoming definition)
			st.assume("(>= " + n + " 0)")
			if bt, ok := fx.counterBound(st, lp, ph); ok {
				st.assume("(or (<= " + n + " " + bt + ") (< " + bt + " 0))")
			}
		}
	}
	touch := map[string]bool{}
	for b := range lp.blocks {
		eng.touchBlock(b, touch)
	}
	names := make([]string, 0, len(touch))
	for c := range touch {
		names = append(names, c)
	}
	sort.Strings(names)
	dirty := map[string]bool{}
	for b := range lp.blocks {
		eng.dirtyBlock(b, func(x *ssa.BasicBlock) bool { return lp.blocks[x] }, dirty)
	}
	allocBefore := st.alloc
	if touch["@alloc"] {
		na := eng.fresh(st, "alloc", SInt)
		st.assume("(>= " + na + " " + st.alloc + ")")
		st.alloc = na
	}
	allocates := false
	for _, c := range names {
		switch {
		case c == "@alloc":
		case strings.HasPrefix(c, "ghost:"):
			g := strings.TrimPrefix(c, "ghost:")
			st.ghost[g] = eng.fresh(st, "g_"+g, eng.ghosts[g])
		default:
			if _, ok := eng.compSort[c]; ok {
				old := eng.heapGet(st, c)
				n := eng.heapHavoc(st, c)
				if !dirty[c] {
					// the loop only adds new objects to this component: everything allocated before is unchanged
					p := eng.freshName("p")
					st.assume("(forall ((" + p + " Int)) (! (=> (<= " + p + " " + allocBefore + ") (= (select " + n + " " + p + ") (select " + old + " " + p + "))) :pattern ((select " + n + " " + p + "))))")
				}
			}
		}
	}
	if allocates {
		na := eng.fresh(st, "alloc", SInt)
		st.assume("(>= " + na + " " + st.alloc + ")")
		st.alloc = na
	}
	// references held in havoc'd phis are allocated
	for _, in := range lp.header.Instrs {
		if ph, ok := in.(*ssa.Phi); ok {
			st.assume(fx.allocatedInv(st, st.vals[ph]))
		}
	}
	if fc := fx.contractFor(lp.fn); fc != nil && fc == fx.fc {
		for _, gu := range fc.GhostUpd {
			inner := false
			for _, l2 := range fx.loopsOf(lp.fn) {
				if fx.ord(l2) == gu.Loop && lp.blocks[l2.header] {
					inner = true
				}
			}
			if inner {
				st.ghost["fg:"+fc.Key+":"+gu.Name] = eng.fresh(st, "ghost_"+gu.Name, fc.ghostSort(gu.Name))
			}
		}
		// ghosts assigned by call-site ghost statements inside the loop
		if len(fc.CallGhosts) > 0 {
			ord := map[string]int{}
			for _, b := range lp.fn.Blocks {
				for _, x := range b.Instrs {
					c, ok := x.(*ssa.Call)
					if !ok {
						continue
					}
					nm := ""
					if cc := c.Common(); cc.IsInvoke() {
						nm = cc.Method.Name()
					} else if f, ok := cc.Value.(*ssa.Function); ok {
						nm = f.Name()
						if old, renamed := eng.bareAlias[nm]; renamed {
							nm = old
						}
					}
					if nm == "" {
						continue
					}
					ord[nm]++
					if !lp.blocks[b] {
						continue
					}
					for _, cg := range fc.CallGhosts {
						if cg.Callee == nm && cg.Ordinal == ord[nm] {
							st.ghost["fg:"+fc.Key+":"+cg.Name] = eng.fresh(st, "ghost_"+cg.Name, fc.ghostSort(cg.Name))
						}
					}
				}
			}
		}
	}
	if lp.enumKey != "" {
		if _, ok := st.ghost[lp.enumKey]; ok {
			srt := eng.loopEnumSort[lp.enumKey]
			st.ghost[lp.enumKey] = eng.fresh(st, "visited", srt)
		}
	}
}

// ---------- memory ----------

func (fx *FnExec) locOf(st *State, v ssa.Value) *Loc {
	if l, ok := st.locs[v]; ok {
		return l
	}
	pv := fx.val(st, v)
	et, ok := derefType(v.Type())
	if !ok {
		fx.unsupp("dereference of non-pointer %s", v)
	}
	return &Loc{Kind: LDeref, Ptr: pv, ET: et}
}

func (fx *FnExec) loadAt(st *State, l *Loc) Val {
	eng := fx.eng
	srt := eng.sorts.sortOf(l.ET)
	switch l.Kind {
	case LDeref:
		if _, isArr := l.ET.Underlying().(*types.Array); isArr {
			fx.unsupp("load of whole array")
		}
		comp := eng.regPtr(l.ET)
		return Val{T: sel(eng.heapGet(st, comp), l.Ptr.T), S: srt, GT: l.ET}
	case LField:
		pv := fx.loadAt(st, l.Parent)
		si := eng.sorts.structOf(l.Parent.ET)
		return Val{T: app(si.Fields[l.Field], pv.T), S: srt, GT: l.ET}
	case LIndex:
		comp := eng.regSlice(l.ET)
		return Val{T: sel(sel(eng.heapGet(st, comp), app("sl_arr", l.Slice.T)), app("idx", app("sl_off", l.Slice.T), l.Idx)), S: srt, GT: l.ET}
	}
	panic("bad loc")
}

func (fx *FnExec) storeAt(st *State, l *Loc, v Val) {
	eng := fx.eng
	switch l.Kind {
	case LDeref:
		comp := eng.regPtr(l.ET)
		eng.heapSet(st, comp, store(eng.heapGet(st, comp), l.Ptr.T, v.T))
	case LField:
		pv := fx.loadAt(st, l.Parent)
		si := eng.sorts.structOf(l.Parent.ET)
		var b strings.Builder
		b.WriteString("(mk_" + si.Sort)
		for i, f := range si.Fields {
			if i == l.Field {
				b.WriteString(" " + v.T)
			} else {
				b.WriteString(" " + app(f, pv.T))
			}
		}
		b.WriteString(")")
		fx.storeAt(st, l.Parent, Val{T: b.String(), S: si.Sort, GT: l.Parent.ET})
	case LIndex:
		comp := eng.regSlice(l.ET)
		h := eng.heapGet(st, comp)
		a := app("sl_arr", l.Slice.T)
		eng.heapSet(st, comp, store(h, a, store(sel(h, a), app("idx", app("sl_off", l.Slice.T), l.Idx), v.T)))
	}
}

// zeroArray returns a term for an array (Int -> elem) filled with the zero value.
func (fx *FnExec) zeroArray(st *State, et types.Type) string {
	eng := fx.eng
	es := eng.sorts.sortOf(et)
	z := eng.sorts.zero(et)
	if !strings.Contains(z, "eps") {
		return "((as const (Array Int " + es + ")) " + z + ")"
	}
	// cvc5 accepts only values in constant arrays: use a quantified definition instead
	n := eng.fresh(st, "zeros", "(Array Int "+es+")")
	i := eng.freshName("i")
	st.assume("(forall ((" + i + " Int)) (! (= (select " + n + " " + i + ") " + z + ") :pattern ((select " + n + " " + i + "))))")
	return n
}

// frameCheck emits the frame obligation for a write: the written object was allocated during
// this call, or the write is covered by the function's modifies clause.
func (fx *FnExec) frameCheck(st *State, in ssa.Instruction, ref string, loc *Loc) {
	if fx.fc == nil || fx.entry == nil {
		return
	}
	if strings.HasPrefix(ref, "(- ") {
		// package-level variable
		ok := "false"
		if fx.fn.Name() == "init" {
			ok = "true"
		}
		fx.emit(st, &Obligation{Kind: "frame", Name: fx.siteName(in) + ".global", Props: fx.frameProps(), Goal: ok})
		return
	}
	alts := []string{"(> " + ref + " " + fx.entry.alloc + ")"}
	for _, m := range fx.fc.Modifies {
		if _, isGhost := fx.eng.ghosts[m]; isGhost {
			continue
		}
		parts := strings.Split(m, ".")
		pv, ok := fx.params[parts[0]]
		if !ok {
			continue
		}
		c := "(= " + ref + " " + pv.T + ")"
		if len(parts) == 2 && loc != nil {
			// the written field must be the declared one: find the top-level field of the access path
			top := loc
			for top.Kind == LField && top.Parent != nil && top.Parent.Kind == LField {
				top = top.Parent
			}
			if top.Kind != LField || top.Parent == nil || top.Parent.Kind != LDeref {
				continue
			}
			stt, isS := top.Parent.ET.Underlying().(*types.Struct)
			if !isS || stt.Field(top.Field).Name() != parts[1] {
				continue
			}
		}
		alts = append(alts, c)
	}
	fx.emit(st, &Obligation{Kind: "frame", Name: fx.siteName(in), Props: fx.frameProps(), Goal: or(alts...)})
}

func (fx *FnExec) frameProps() []string {
	if fx.pkgContract() != nil && fx.fn.Pkg != nil && fx.fn.Pkg.Pkg.Name() == "main" {
		return []string{"C17"}
	}
	return []string{"C14", "C15"}
}

func locRoot(l *Loc) (string, bool) {
	r := l
	for r.Kind == LField {
		r = r.Parent
	}
	switch r.Kind {
	case LDeref:
		return r.Ptr.T, true
	case LIndex:
		return "(sl_arr " + r.Slice.T + ")", true
	}
	return "", false
}

func (fx *FnExec) newRef(st *State) string {
	n := fx.eng.fresh(st, "ref", SInt)
	st.add("(assert (= " + n + " (+ " + st.alloc + " 1)))")
	st.alloc = n
	return n
}

func (fx *FnExec) lenOf(st *State, v Val) Val {
	eng := fx.eng
	if v.S == SSlice {
		return Val{T: app("sl_len", v.T), S: SInt}
	}
	if v.S == SStr {
		return Val{T: app("blen", v.T), S: SInt}
	}
	if v.GT != nil {
		if m, ok := v.GT.Underlying().(*types.Map); ok {
			eng.regMap(m)
			ln := sel(eng.heapGet(st, mapLen), v.T)
			// map model: the length is the cardinality of the domain (maintained by insert/delete).
			// T-CARD, instantiated for this domain: facts about cardinalities 0, 1 and 2 of a finite set.
			ks := eng.sorts.sortOf(m.Key())
			d := eng.define(st, "dom", "(Array "+ks+" Bool)", sel(eng.heapGet(st, mapDom(m)), v.T))
			l := eng.define(st, "maplen", SInt, ln)
			x, y, z := eng.freshName("x"), eng.freshName("y"), eng.freshName("z")
			eng.assumptions["T-CARD: len(m) of a map is the cardinality of its key set; for a finite set S: |S|>=0; |S|>=1 iff S has a member; |S|<=1 iff any two members are equal; |S|<=2 iff among any three members two are equal"] = true
			st.assume("(>= " + l + " 0)")
			st.assume("(forall ((" + x + " " + ks + ")) (! (=> (select " + d + " " + x + ") (>= " + l + " 1)) :pattern ((select " + d + " " + x + "))))")
			st.assume("(=> (>= " + l + " 1) (exists ((" + x + " " + ks + ")) (select " + d + " " + x + ")))")
			st.assume("(= (<= " + l + " 1) (forall ((" + x + " " + ks + ") (" + y + " " + ks + ")) (! (=> (and (select " + d + " " + x + ") (select " + d + " " + y + ")) (= " + x + " " + y + ")) :pattern ((select " + d + " " + x + ") (select " + d + " " + y + ")))))")
			st.assume("(= (<= " + l + " 2) (forall ((" + x + " " + ks + ") (" + y + " " + ks + ") (" + z + " " + ks + ")) (! (=> (and (select " + d + " " + x + ") (select " + d + " " + y + ") (select " + d + " " + z + ")) (or (= " + x + " " + y + ") (= " + x + " " + z + ") (= " + y + " " + z + "))) :pattern ((select " + d + " " + x + ") (select " + d + " " + y + ") (select " + d + " " + z + ")))))")
			ln = l
			return Val{T: ln, S: SInt}
		}
	}
	fx.unsupp("len of %s", v.S)
	return Val{}
}

func (fx *FnExec) convert(v Val, to types.Type) Val {
	eng := fx.eng
	ts := eng.sorts.sortOf(to)
	out := Val{S: ts, GT: to, M: v.M}
	switch {
	case v.S == SInt && ts == SInt:
		_, _, bits, unsigned, ok := intRange(to)
		if !ok {
			out.T = v.T
			return out
		}
		// source range known to fit?
		if v.GT != nil {
			if _, _, sb, su, sok := intRange(v.GT); sok && ((su == unsigned && sb <= bits) || (su && !unsigned && sb < bits)) {
				out.T = v.T
				return out
			}
		}
		if unsigned {
			out.T = "(mod " + v.T + " " + pow2[bits] + ")"
		} else if bits == 64 {
			out.T = v.T // A-INT: int/int64 treated as mathematical
		} else {
			half := map[int]string{8: "128", 16: "32768", 32: "2147483648"}[bits]
			out.T = "(- (mod (+ " + v.T + " " + half + ") " + pow2[bits] + ") " + half + ")"
		}
	case v.S == SInt && ts == SReal:
		out.T = "(to_real " + v.T + ")"
	case v.S == SReal && ts == SReal:
		out.T = v.T // A-REAL: float32/float64 rounding not modelled
	case v.S == SReal && ts == SInt:
		out.T = "(to_int " + v.T + ")" // floor; differs from Go truncation for negatives
	case v.S == ts:
		out.T = v.T
	case v.S == SInt && ts == SStr:
		out.T = app("runeStr", v.T) // string(rune): an uninterpreted function of the code point
	default:
		fx.unsupp("conversion %s -> %s", v.S, ts)
	}
	return out
}

func (fx *FnExec) binop(st *State, in *ssa.BinOp, a, b Val, pure bool) Val {
	eng := fx.eng
	rt := in.Type()
	rs := eng.sorts.sortOf(rt)
	out := Val{S: rs, GT: rt}
	wrap := func(t string) string {
		if _, _, bits, unsigned, ok := intRange(rt); ok && unsigned {
			return "(mod " + t + " " + pow2[bits] + ")"
		}
		return t
	}
	switch in.Op {
	case token.ADD:
		if a.S == SStr {
			out.T = app("cat", a.T, b.T)
		} else if a.S == SReal {
			out.T = "(+ " + a.T + " " + b.T + ")"
		} else {
			out.T = wrap("(+ " + a.T + " " + b.T + ")")
		}
	case token.SUB:
		if a.S == SReal {
			out.T = "(- " + a.T + " " + b.T + ")"
		} else {
			out.T = wrap("(- " + a.T + " " + b.T + ")")
		}
	case token.MUL:
		if a.S == SReal {
			out.T = "(* " + a.T + " " + b.T + ")"
		} else {
			out.T = wrap("(* " + a.T + " " + b.T + ")")
		}
	case token.QUO:
		if a.S == SReal {
			out.T = "(/ " + a.T + " " + b.T + ")"
			break
		}
		if !pure {
			fx.safety(st, "div0", fx.siteName(in), not("(= "+b.T+" 0)"))
		}
		if _, _, _, unsigned, _ := intRange(rt); unsigned {
			out.T = "(div " + a.T + " " + b.T + ")"
		} else {
			out.T = app("godiv", a.T, b.T)
		}
	case token.REM:
		if !pure {
			fx.safety(st, "div0", fx.siteName(in), not("(= "+b.T+" 0)"))
		}
		if _, _, _, unsigned, _ := intRange(rt); unsigned {
			out.T = "(mod " + a.T + " " + b.T + ")"
		} else {
			out.T = app("gomod", a.T, b.T)
		}
	case token.AND:
		out.T = fx.bitop("band", a, b, rt)
	case token.OR:
		out.T = fx.bitop("bor", a, b, rt)
	case token.EQL, token.NEQ:
		if a.S != b.S {
			fx.unsupp("comparison of %s and %s", a.S, b.S)
		}
		if a.S == "TUPLE" {
			fx.unsupp("tuple comparison")
		}
		out.T = "(= " + a.T + " " + b.T + ")"
		if in.Op == token.NEQ {
			out.T = not(out.T)
		}
	case token.SHL, token.SHR:
		// shifts by a literal amount are exact (multiplication / floor division by a power of two);
		// other shifts are an uninterpreted function of both operands (sound, rarely decides anything)
		if isLiteralInt(b.T) && len(b.T) <= 2 {
			var c uint
			fmt.Sscan(b.T, &c)
			p := new(big.Int).Lsh(big.NewInt(1), c).String()
			if in.Op == token.SHR {
				out.T = "(div " + a.T + " " + p + ")"
			} else {
				out.T = wrap("(* " + a.T + " " + p + ")")
			}
		} else if in.Op == token.SHR {
			out.T = app("shrU", a.T, b.T)
		} else {
			out.T = wrap(app("shlU", a.T, b.T))
		}
	case token.XOR:
		out.T = app("bxorU", a.T, b.T)
	case token.AND_NOT:
		out.T = app("bandnotU", a.T, b.T)
	case token.LSS, token.LEQ, token.GTR, token.GEQ:
		if a.S == SStr {
			lt := map[token.Token]string{token.LSS: app("strlt", a.T, b.T), token.GTR: app("strlt", b.T, a.T),
				token.LEQ: not(app("strlt", b.T, a.T)), token.GEQ: not(app("strlt", a.T, b.T))}[in.Op]
			out.T = lt
			break
		}
		op := map[token.Token]string{token.LSS: "<", token.LEQ: "<=", token.GTR: ">", token.GEQ: ">="}[in.Op]
		out.T = "(" + op + " " + a.T + " " + b.T + ")"
	default:
		fx.unsupp("binary operator %s", in.Op)
	}
	return out
}

func isLiteralInt(t string) bool {
	if t == "" {
		return false
	}
	for _, c := range t {
		if c < '0' || c > '9' {
			return false
		}
	}
	return true
}

// bitop: & and | on unsigned values. A literal single-bit mask is expressed
// arithmetically (exact); everything else uses band32/bor32 from the prelude.
func (fx *FnExec) bitop(op string, a, b Val, rt types.Type) string {
	if op == "band" {
		for _, pr := range [][2]Val{{a, b}, {b, a}} {
			if isLiteralInt(pr[1].T) {
				var n uint64
				fmt.Sscan(pr[1].T, &n)
				if n != 0 && n&(n-1) == 0 {
					return fmt.Sprintf("(* (mod (div %s %d) 2) %d)", pr[0].T, n, n)
				}
			}
		}
	}
	return app(op+"32", a.T, b.T)
}

func (fx *FnExec) step(st *State, in ssa.Instruction) {
	eng := fx.eng
	switch in := in.(type) {
	case *ssa.Alloc:
		et := in.Type().Underlying().(*types.Pointer).Elem()
		ref := fx.newRef(st)
		if at, isArr := et.Underlying().(*types.Array); isArr {
			comp := eng.regSlice(at.Elem())
			h := eng.heapGet(st, comp)
			eng.heapSet(st, comp, store(h, ref, fx.zeroArray(st, at.Elem())))
			st.vals[in] = Val{T: ref, S: SInt, GT: in.Type()}
			return
		}
		comp := eng.regPtr(et)
		eng.heapSet(st, comp, store(eng.heapGet(st, comp), ref, eng.sorts.zero(et)))
		st.vals[in] = Val{T: ref, S: SInt, GT: in.Type()}
	case *ssa.FieldAddr:
		parent := fx.locOf(st, in.X)
		if _, isG := in.X.(*ssa.Global); !isG && parent.Kind == LDeref {
			fx.safety(st, "nil", fx.siteName(in), "(not (= "+parent.Ptr.T+" 0))")
		}
		st.locs[in] = &Loc{Kind: LField, Parent: parent, Field: in.Field, ET: parent.ET.Underlying().(*types.Struct).Field(in.Field).Type()}
	case *ssa.IndexAddr:
		idx := fx.val(st, in.Index)
		var sl Val
		var et types.Type
		switch xt := in.X.Type().Underlying().(type) {
		case *types.Slice:
			sl = fx.val(st, in.X)
			et = xt.Elem()
		case *types.Pointer:
			at, ok := xt.Elem().Underlying().(*types.Array)
			if !ok {
				fx.unsupp("IndexAddr on %s", xt)
			}
			pv := fx.val(st, in.X)
			sl = Val{T: fmt.Sprintf("(mk_Slice %s 0 %d %d)", pv.T, at.Len(), at.Len()), S: SSlice}
			et = at.Elem()
		default:
			fx.unsupp("IndexAddr on %s", in.X.Type())
		}
		fx.safety(st, "bounds", fx.siteName(in), and("(<= 0 "+idx.T+")", "(< "+idx.T+" "+app("sl_len", sl.T)+")"))
		st.locs[in] = &Loc{Kind: LIndex, Slice: sl, Idx: idx.T, ET: et}
	case *ssa.Field:
		x := fx.val(st, in.X)
		si := eng.sorts.structOf(in.X.Type())
		st.vals[in] = Val{T: app(si.Fields[in.Field], x.T), S: si.FSorts[in.Field], GT: in.Type()}
	case *ssa.UnOp:
		switch in.Op {
		case token.MUL:
			l := fx.locOf(st, in.X)
			if _, isG := in.X.(*ssa.Global); isG {
				if v, ok := fx.loadGlobal(st, in.X.(*ssa.Global)); ok {
					st.vals[in] = v
					return
				}
			} else if l.Kind == LDeref {
				fx.safety(st, "nil", fx.siteName(in), "(not (= "+l.Ptr.T+" 0))")
			}
			v := fx.loadAt(st, l)
			v.T = eng.define(st, in.Name(), v.S, v.T)
			v.GT = in.Type()
			st.vals[in] = v
		case token.NOT:
			x := fx.val(st, in.X)
			st.vals[in] = Val{T: not(x.T), S: SBool, GT: in.Type()}
		case token.SUB:
			x := fx.val(st, in.X)
			st.vals[in] = Val{T: "(- " + x.T + ")", S: x.S, GT: in.Type()}
		default:
			fx.unsupp("unary operator %s", in.Op)
		}
	case *ssa.Store:
		if g, isG := in.Addr.(*ssa.Global); isG && g.Object() == nil {
			return // init$guard
		}
		l := fx.locOf(st, in.Addr)
		if _, isG := in.Addr.(*ssa.Global); !isG && l.Kind == LDeref {
			fx.safety(st, "nil", fx.siteName(in), "(not (= "+l.Ptr.T+" 0))")
		}
		if ref, ok := locRoot(l); ok && !fx.eng.freshIn(in.Addr, func(*ssa.BasicBlock) bool { return true }, map[ssa.Value]bool{}) {
			fx.frameCheck(st, in, ref, l)
		}
		fx.storeAt(st, l, fx.val(st, in.Val))
	case *ssa.BinOp:
		a, b := fx.val(st, in.X), fx.val(st, in.Y)
		v := fx.binop(st, in, a, b, false)
		v.T = eng.define(st, in.Name(), v.S, v.T)
		st.vals[in] = v
	case *ssa.ChangeType:
		v := fx.val(st, in.X)
		v.GT = in.Type()
		st.vals[in] = v
	case *ssa.ChangeInterface:
		v := fx.val(st, in.X)
		v.GT = in.Type()
		st.vals[in] = v
	case *ssa.Convert:
		v := fx.val(st, in.X)
		// string <-> string-like conversions are identities; []byte(string) etc. unsupported
		if v.S == SStr && eng.sorts.sortOf(in.Type()) == SStr {
			v.GT = in.Type()
			st.vals[in] = v
			return
		}
		if v.S == SSlice && eng.sorts.sortOf(in.Type()) == SStr {
			// string(bytes): an unconstrained string (the text of the file for bytes that come from ReadFile)
			if fd, ok := v.M.(*FileData); ok {
				st.vals[in] = Val{T: app("filetext", fd.Path), S: SStr, GT: in.Type()}
				return
			}
			n := eng.fresh(st, "strconv", SStr)
			st.vals[in] = Val{T: n, S: SStr, GT: in.Type()}
			return
		}
		c := fx.convert(v, in.Type())
		c.T = eng.define(st, in.Name(), c.S, c.T)
		st.vals[in] = c
	case *ssa.MakeInterface:
		v := fx.val(st, in.X)
		switch v.S {
		case SStr:
			st.vals[in] = Val{T: app("boxStr", v.T), S: SInt, GT: in.Type(), M: v.M}
		case SInt:
			if _, isInt := in.X.Type().Underlying().(*types.Basic); isInt {
				st.vals[in] = Val{T: app("boxInt", v.T), S: SInt, GT: in.Type()}
			} else {
				m := v.M
				if m == nil {
					m = &DynType{T: in.X.Type()}
				}
				st.vals[in] = Val{T: v.T, S: SInt, GT: in.Type(), M: m}
			}
		case SReal:
			st.vals[in] = Val{T: app("boxReal", v.T), S: SInt, GT: in.Type()}
		default:
			// boxed struct / float / bool: opaque non-nil value
			n := eng.fresh(st, "box", SInt)
			st.assume("(> " + n + " 0)")
			st.vals[in] = Val{T: n, S: SInt, GT: in.Type(), M: &Boxed{V: v}}
		}
	case *ssa.MakeSlice:
		ln := fx.val(st, in.Len)
		cp := fx.val(st, in.Cap)
		fx.safety(st, "makeslice", fx.siteName(in), and("(<= 0 "+ln.T+")", "(<= "+ln.T+" "+cp.T+")"))
		et := in.Type().Underlying().(*types.Slice).Elem()
		ref := fx.newRef(st)
		comp := eng.regSlice(et)
		eng.heapSet(st, comp, store(eng.heapGet(st, comp), ref, fx.zeroArray(st, et)))
		st.vals[in] = Val{T: fmt.Sprintf("(mk_Slice %s 0 %s %s)", ref, ln.T, cp.T), S: SSlice, GT: in.Type()}
	case *ssa.MakeMap:
		mt := in.Type().Underlying().(*types.Map)
		eng.regMap(mt)
		ref := fx.newRef(st)
		ks, vs := eng.sorts.sortOf(mt.Key()), eng.sorts.sortOf(mt.Elem())
		eng.heapSet(st, mapDom(mt), store(eng.heapGet(st, mapDom(mt)), ref, "((as const (Array "+ks+" Bool)) false)"))
		zv := "((as const (Array " + ks + " " + vs + ")) " + eng.sorts.zero(mt.Elem()) + ")"
		if strings.Contains(eng.sorts.zero(mt.Elem()), "eps") {
			// cvc5 accepts only values in constant arrays
			zv = eng.fresh(st, "zeromap", "(Array "+ks+" "+vs+")")
			i := eng.freshName("i")
			st.assume("(forall ((" + i + " " + ks + ")) (! (= (select " + zv + " " + i + ") " + eng.sorts.zero(mt.Elem()) + ") :pattern ((select " + zv + " " + i + "))))")
		}
		eng.heapSet(st, mapVal(mt), store(eng.heapGet(st, mapVal(mt)), ref, zv))
		eng.heapSet(st, mapLen, store(eng.heapGet(st, mapLen), ref, "0"))
		st.vals[in] = Val{T: ref, S: SInt, GT: in.Type()}
	case *ssa.MakeClosure:
		fn := in.Fn.(*ssa.Function)
		cl := &Closure{Fn: fn, Bindings: in.Bindings}
		for _, bnd := range in.Bindings {
			if l, ok := st.locs[bnd]; ok {
				cl.BindLocs = append(cl.BindLocs, l)
				cl.BindVals = append(cl.BindVals, Val{})
			} else {
				cl.BindLocs = append(cl.BindLocs, nil)
				cl.BindVals = append(cl.BindVals, fx.val(st, bnd))
			}
		}
		ref := fx.newRef(st)
		st.vals[in] = Val{T: ref, S: SInt, GT: in.Type(), M: cl}
		fx.closureSpec(st, in, fn, cl, ref)
	case *ssa.Slice:
		fx.doSlice(st, in)
	case *ssa.Lookup:
		fx.doLookup(st, in)
	case *ssa.MapUpdate:
		fx.doMapUpdate(st, in)
	case *ssa.Range:
		fx.doRange(st, in)
	case *ssa.Extract:
		t := fx.val(st, in.Tuple)
		vs, ok := t.M.([]Val)
		if !ok {
			fx.unsupp("extract from non-tuple")
		}
		v := vs[in.Index]
		if v.GT == nil {
			v.GT = in.Type()
		}
		st.vals[in] = v
	case *ssa.TypeAssert:
		fx.doTypeAssert(st, in)
	case *ssa.RunDefers:
		// no defers in the subset (checked by touch scan)
	default:
		fx.unsupp("instruction %T (%s)", in, in)
	}
}

type Boxed struct{ V Val }

func (fx *FnExec) doSlice(st *State, in *ssa.Slice) {
	eng := fx.eng
	var base Val
	isStr := false
	switch xt := in.X.Type().Underlying().(type) {
	case *types.Slice:
		base = fx.val(st, in.X)
	case *types.Pointer:
		at, ok := xt.Elem().Underlying().(*types.Array)
		if !ok {
			fx.unsupp("slice of %s", xt)
		}
		pv := fx.val(st, in.X)
		base = Val{T: fmt.Sprintf("(mk_Slice %s 0 %d %d)", pv.T, at.Len(), at.Len()), S: SSlice}
	case *types.Basic:
		isStr = true
	}
	if isStr {
		// s[lo:hi] on a string: bounds in bytes are checked; the result is an uninterpreted function of (s, lo, hi)
		sv := fx.val(st, in.X)
		lo, hi := "0", app("blen", sv.T)
		if in.Low != nil {
			lo = fx.val(st, in.Low).T
		}
		if in.High != nil {
			hi = fx.val(st, in.High).T
		}
		fx.safety(st, "bounds", fx.siteName(in), and("(<= 0 "+lo+")", "(<= "+lo+" "+hi+")", "(<= "+hi+" "+app("blen", sv.T)+")"))
		st.vals[in] = Val{T: eng.define(st, in.Name(), SStr, app("substr", sv.T, lo, hi)), S: SStr, GT: in.Type()}
		return
	}
	lo, hi := "0", app("sl_len", base.T)
	if in.Low != nil {
		lo = fx.val(st, in.Low).T
	}
	if in.High != nil {
		hi = fx.val(st, in.High).T
	}
	if in.Max != nil {
		fx.unsupp("3-index slice")
	}
	fx.safety(st, "bounds", fx.siteName(in), and("(<= 0 "+lo+")", "(<= "+lo+" "+hi+")", "(<= "+hi+" "+app("sl_cap", base.T)+")"))
	t := fmt.Sprintf("(mk_Slice (sl_arr %s) (+ (sl_off %s) %s) (- %s %s) (- (sl_cap %s) %s))", base.T, base.T, lo, hi, lo, base.T, lo)
	t = eng.define(st, in.Name(), SSlice, t)
	st.vals[in] = Val{T: t, S: SSlice, GT: in.Type()}
}

func (fx *FnExec) doLookup(st *State, in *ssa.Lookup) {
	eng := fx.eng
	mt, ok := in.X.Type().Underlying().(*types.Map)
	if !ok {
		fx.unsupp("string indexing")
	}
	eng.regMap(mt)
	m := fx.val(st, in.X)
	k := fx.val(st, in.Index)
	// reading a nil map is legal in Go; model: domain of ref 0 is empty
	dom := sel(sel(eng.heapGet(st, mapDom(mt)), m.T), k.T)
	val := sel(sel(eng.heapGet(st, mapVal(mt)), m.T), k.T)
	vs := eng.sorts.sortOf(mt.Elem())
	v := Val{T: eng.define(st, in.Name(), vs, ite(dom, val, eng.sorts.zero(mt.Elem()))), S: vs, GT: mt.Elem()}
	if in.CommaOk {
		st.vals[in] = Val{T: "tuple", S: "TUPLE", M: []Val{v, {T: dom, S: SBool}}}
	} else {
		st.vals[in] = v
	}
}

func (fx *FnExec) doMapUpdate(st *State, in *ssa.MapUpdate) {
	eng := fx.eng
	mt := in.Map.Type().Underlying().(*types.Map)
	eng.regMap(mt)
	m := fx.val(st, in.Map)
	k := fx.val(st, in.Key)
	v := fx.val(st, in.Value)
	fx.safety(st, "nil", fx.siteName(in), "(> "+m.T+" 0)")
	if !fx.eng.freshIn(in.Map, func(*ssa.BasicBlock) bool { return true }, map[ssa.Value]bool{}) {
		fx.frameCheck(st, in, m.T, nil)
	}
	fx.mapSet(st, mt, m.T, k.T, v.T)
}

func (fx *FnExec) mapSet(st *State, mt *types.Map, m, k, v string) {
	eng := fx.eng
	dh := eng.heapGet(st, mapDom(mt))
	vh := eng.heapGet(st, mapVal(mt))
	lh := eng.heapGet(st, mapLen)
	was := sel(sel(dh, m), k)
	eng.heapSet(st, mapLen, store(lh, m, "(+ "+sel(lh, m)+" "+ite(was, "0", "1")+")"))
	eng.heapSet(st, mapDom(mt), store(dh, m, store(sel(dh, m), k, "true")))
	eng.heapSet(st, mapVal(mt), store(vh, m, store(sel(vh, m), k, v)))
}

func (fx *FnExec) mapDelete(st *State, mt *types.Map, m, k string) {
	eng := fx.eng
	dh := eng.heapGet(st, mapDom(mt))
	vh := eng.heapGet(st, mapVal(mt))
	lh := eng.heapGet(st, mapLen)
	was := sel(sel(dh, m), k)
	eng.heapSet(st, mapLen, store(lh, m, "(- "+sel(lh, m)+" "+ite(was, "1", "0")+")"))
	eng.heapSet(st, mapDom(mt), store(dh, m, store(sel(dh, m), k, "false")))
	eng.heapSet(st, mapVal(mt), store(vh, m, store(sel(vh, m), k, eng.sorts.zero(mt.Elem()))))
}

func (fx *FnExec) doRange(st *State, in *ssa.Range) {
	eng := fx.eng
	mt, ok := in.X.Type().Underlying().(*types.Map)
	if !ok {
		fx.unsupp("range over string")
	}
	eng.regMap(mt)
	m := fx.val(st, in.X)
	ks := eng.sorts.sortOf(mt.Key())
	key := fx.enumKeyFor(in)
	srt := "(Array " + ks + " Bool)"
	eng.loopEnumSort[key] = srt
	n := eng.fresh(st, "visited", srt)
	st.assume("(= " + n + " ((as const " + srt + ") false))")
	st.ghost[key] = n
	st.vals[in] = Val{T: "iter", S: "ITER", M: &Enumerator{Key: key, KeySort: ks, MapRef: m, MapT: mt, Instr: in}}
}

func (fx *FnExec) doNext(st *State, in *ssa.Next, k func(*State)) {
	eng := fx.eng
	it := fx.val(st, in.Iter)
	en, ok := it.M.(*Enumerator)
	if !ok || en.MapT == nil {
		fx.unsupp("next on unknown iterator")
	}
	mt := en.MapT
	vis := eng.ghostRaw(st, en.Key)
	dom := sel(eng.heapGet(st, mapDom(mt)), en.MapRef.T)
	// ok = false: every key still in the map has been produced
	s0 := st.fork()
	qk := eng.freshName("k")
	s0.assume("(forall ((" + qk + " " + en.KeySort + ")) (! (=> (select " + dom + " " + qk + ") (select " + vis + " " + qk + ")) :pattern ((select " + dom + " " + qk + ")) :pattern ((select " + vis + " " + qk + "))))")
	s0.vals[in] = Val{T: "tuple", S: "TUPLE", M: []Val{{T: "false", S: SBool}, {T: eng.sorts.zero(mt.Key()), S: en.KeySort, GT: mt.Key()}, {T: eng.sorts.zero(mt.Elem()), S: eng.sorts.sortOf(mt.Elem()), GT: mt.Elem()}}}
	k(s0)
	// ok = true: some key in the map now, not produced before
	kk := eng.fresh(st, "key", en.KeySort)
	st.assume(eng.sorts.typeInv(mt.Key(), kk))
	st.assume(sel(dom, kk))
	st.assume(not(sel(vis, kk)))
	nv := eng.fresh(st, "visited", eng.loopEnumSort[en.Key])
	st.assume("(= " + nv + " " + store(vis, kk, "true") + ")")
	st.ghost[en.Key] = nv
	val := sel(sel(eng.heapGet(st, mapVal(mt)), en.MapRef.T), kk)
	st.vals[in] = Val{T: "tuple", S: "TUPLE", M: []Val{{T: "true", S: SBool}, {T: kk, S: en.KeySort, GT: mt.Key()}, {T: val, S: eng.sorts.sortOf(mt.Elem()), GT: mt.Elem()}}}
	k(st)
}

// doRecv: receive from a channel produced by Set.Iter() (an enumerator over the set's elements).
func (fx *FnExec) doRecv(st *State, in *ssa.UnOp, k func(*State)) {
	eng := fx.eng
	ch := fx.val(st, in.X)
	en, ok := ch.M.(*Enumerator)
	if !ok || en.MapT != nil {
		fx.unsupp("receive from unknown channel")
	}
	if !in.CommaOk {
		fx.unsupp("plain channel receive")
	}
	vis := eng.ghostRaw(st, en.Key)
	s0 := st.fork()
	qk := eng.freshName("k")
	s0.assume("(forall ((" + qk + " Str)) (! (=> (select " + en.SetElems + " " + qk + ") (select " + vis + " " + qk + ")) :pattern ((select " + en.SetElems + " " + qk + ")) :pattern ((select " + vis + " " + qk + "))))")
	s0.vals[in] = Val{T: "tuple", S: "TUPLE", M: []Val{{T: "0", S: SInt}, {T: "false", S: SBool}}}
	k(s0)
	kk := eng.fresh(st, "elem", SStr)
	st.assume(sel(en.SetElems, kk))
	st.assume(not(sel(vis, kk)))
	nv := eng.fresh(st, "visited", "(Array Str Bool)")
	st.assume("(= " + nv + " " + store(vis, kk, "true") + ")")
	st.ghost[en.Key] = nv
	st.vals[in] = Val{T: "tuple", S: "TUPLE", M: []Val{{T: app("boxStr", kk), S: SInt}, {T: "true", S: SBool}}}
	k(st)
}

func (fx *FnExec) doTypeAssert(st *State, in *ssa.TypeAssert) {
	eng := fx.eng
	x := fx.val(st, in.X)
	ts := eng.sorts.sortOf(in.AssertedType)
	if in.CommaOk {
		fx.unsupp("comma-ok type assertion")
	}
	switch ts {
	case SStr:
		fx.safety(st, "typeassert", fx.siteName(in), app("isStr", x.T))
		st.vals[in] = Val{T: app("unboxStr", x.T), S: SStr, GT: in.AssertedType}
	default:
		fx.unsupp("type assertion to %s", in.AssertedType)
	}
}

// loadGlobal gives the value of package-level variables that are never written after
// initialisation and whose initialiser is a literal the engine can read (checked by touch scan).
func (fx *FnExec) loadGlobal(st *State, g *ssa.Global) (Val, bool) {
	return fx.eng.immutableGlobal(fx, st, g)
}

// closureSpec: a function literal under a "pure" contract whose results are (string, entropy) is a
// separator function whose every call returns results satisfying that contract's postconditions:
// forall k. Post[res0 := sepval(f, k), res1 := sfent(f)] with the captured variables' values at creation.
// Sound because the literal is verified against the contract, has no effects (pure: its touch set is
// empty, checked here) and its captured cells are written only before the closure is made.
func (fx *FnExec) closureSpec(st *State, in *ssa.MakeClosure, fn *ssa.Function, cl *Closure, ref string) {
	eng := fx.eng
	fc := eng.contractOf(fn)
	if fc == nil || !fc.Pure || len(fc.Ensures) == 0 {
		return
	}
	rs := fn.Signature.Results()
	if rs.Len() != 2 || eng.sorts.sortOf(rs.At(0).Type()) != SStr || eng.sorts.sortOf(rs.At(1).Type()) != SReal || fn.Signature.Params().Len() != 0 {
		return
	}
	for c := range eng.touchFunc(fn) {
		if c != "@alloc" {
			fx.unsupp("closure %s is declared pure but touches %s", fn, c)
		}
	}
	for _, b := range in.Bindings {
		// captured cells: one initialising store, otherwise only captured
		if a, ok := b.(*ssa.Alloc); ok {
			stores := 0
			for _, r := range *a.Referrers() {
				switch r := r.(type) {
				case *ssa.Store:
					if r.Addr == ssa.Value(a) {
						stores++
					}
				case *ssa.MakeClosure, *ssa.DebugRef:
				default:
					fx.unsupp("captured variable of pure closure %s is used by %s", fn, r)
				}
			}
			if stores > 1 {
				fx.unsupp("captured variable of pure closure %s is assigned more than once", fn)
			}
		}
	}
	kq := eng.freshName("k")
	env := &Env{fx: fx, cur: st, old: st, vars: map[string]Val{}, fc: fc}
	if fn.Parent() != nil && fn.Parent().Pkg != nil {
		env.pkg = fn.Parent().Pkg.Pkg
	}
	for i, fv := range fn.FreeVars {
		if cl.BindLocs[i] != nil {
			env.vars[fv.Name()] = fx.loadAt(st, cl.BindLocs[i])
		} else if et, isP := derefType(fv.Type()); isP {
			env.vars[fv.Name()] = fx.loadAt(st, &Loc{Kind: LDeref, Ptr: cl.BindVals[i], ET: et})
		}
	}
	env.vars["res0"] = Val{T: "(sepval " + ref + " " + kq + ")", S: SStr, GT: rs.At(0).Type()}
	env.vars["res"] = env.vars["res0"]
	env.vars["res1"] = Val{T: "(sfent " + ref + ")", S: SReal, GT: rs.At(1).Type()}
	for _, c := range fc.Ensures {
		f, err := fx.safeTr(env, c)
		if err != nil {
			fx.bindFail(c, err)
			continue
		}
		st.assume("(forall ((" + kq + " Int)) (! " + f + " :pattern ((sepval " + ref + " " + kq + "))))")
	}
	eng.assumptions["A-CLOSURE: a function value made from a function literal behaves, at every call, as the literal's verified contract says (here: pure separator functions, results named by sepval/sfent)"] = true
}

// callGhosts executes the "call NAME#k ghost G = e" clauses of the function under verification
// after call instruction in has returned res.
func (fx *FnExec) callGhosts(st *State, in *ssa.Call, recv *Val, res []Val) {
	fc := fx.fc
	if fc == nil || len(fc.CallGhosts) == 0 || (in.Parent() != fx.fn && fx.eng.contractOf(in.Parent()) != nil) {
		return // (calls inside a helper without a contract, executed inline, count as calls of the function under verification)
	}
	nameOf := func(c *ssa.Call) string {
		cc := c.Common()
		if cc.IsInvoke() {
			return cc.Method.Name()
		}
		if f, ok := cc.Value.(*ssa.Function); ok {
			if old, renamed := fx.eng.bareAlias[f.Name()]; renamed {
				return old
			}
			return f.Name()
		}
		return ""
	}
	me := nameOf(in)
	if me == "" {
		return
	}
	ord := 0
	for _, b := range in.Parent().Blocks {
		for _, x := range b.Instrs {
			if c, ok := x.(*ssa.Call); ok && nameOf(c) == me {
				ord++
				if c == in {
					goto found
				}
			}
		}
	}
	return
found:
	for _, cg := range fc.CallGhosts {
		if cg.Callee != me || cg.Ordinal != ord {
			continue
		}
		key := "fg:" + fc.Key + ":" + cg.Name
		cur, ok := st.ghost[key]
		if !ok {
			fx.unsupp("call ghost for undeclared ghost %s", cg.Name)
		}
		env := fx.envFor(st, fx.fn, nil)
		env.local = func(name string) (Val, bool) { return fx.resolveAt(st, in, name) }
		for i, r := range res {
			env.vars[fmt.Sprintf("res%d", i)] = r
			if i == 0 {
				env.vars["res"] = r
			}
		}
		if recv != nil {
			rv := *recv
			if dt, ok := rv.M.(*DynType); ok {
				rv.GT = dt.T
			}
			env.vars["recv"] = rv
		}
		var iv, vv Val
		okTr := func() (ok bool) {
			defer func() {
				if r := recover(); r != nil {
					if _, isT := r.(trErr); isT {
						ok = false
						return
					}
					panic(r)
				}
			}()
			if cg.Idx != nil {
				iv = env.tr(cg.Idx)
			}
			vv = env.tr(cg.Val)
			return true
		}()
		if !okTr || vv.S != fc.ghostSort(cg.Name) && cg.Idx == nil {
			continue // not applicable on this path (e.g. the receiver has another dynamic type)
		}
		n := fx.eng.fresh(st, "ghost_"+cg.Name, fc.ghostSort(cg.Name))
		if cg.Idx != nil {
			st.assume("(= " + n + " " + store(cur, iv.T, vv.T) + ")")
		} else {
			st.assume("(= " + n + " " + vv.T + ")")
		}
		st.ghost[key] = n
	}
}

// noMergeAt: the block lies in the body of a loop whose paths the contract asks to enumerate.
func (fx *FnExec) noMergeAt(b *ssa.BasicBlock) bool {
	fc := fx.contractFor(b.Parent())
	if fc == nil || len(fc.NoMergeLoop) == 0 {
		return false
	}
	for _, lp := range fx.loopsOf(b.Parent()) {
		if fc.NoMergeLoop[fx.ord(lp)] && lp.blocks[b] && lp.header != b {
			return true
		}
	}
	return false
}

// counterBound: the term of B when the loop is "for i := 0; i < B; i++" and B cannot change during the
// loop (a constant, a value defined before the loop, or len of such a value).
func (fx *FnExec) counterBound(st *State, lp *Loop, ph *ssa.Phi) (string, bool) {
	iff, ok := lp.header.Instrs[len(lp.header.Instrs)-1].(*ssa.If)
	if !ok {
		return "", false
	}
	cmp, ok := iff.Cond.(*ssa.BinOp)
	if !ok || cmp.Op != token.LSS || cmp.X != ssa.Value(ph) {
		return "", false
	}
	outside := func(v ssa.Value) bool {
		switch x := v.(type) {
		case *ssa.Const, *ssa.Parameter:
			return true
		case ssa.Instruction:
			return !lp.blocks[x.Block()]
		}
		return false
	}
	if outside(cmp.Y) {
		if _, isC := cmp.Y.(*ssa.Const); isC {
			return fx.val(st, cmp.Y).T, true
		}
		if v, ok := st.vals[cmp.Y]; ok {
			return v.T, true
		}
		return "", false
	}
	if call, ok := cmp.Y.(*ssa.Call); ok {
		if b, ok := call.Common().Value.(*ssa.Builtin); ok && b.Name() == "len" && outside(call.Common().Args[0]) {
			arg := call.Common().Args[0]
			if _, isMap := arg.Type().Underlying().(*types.Map); isMap {
				return "", false // a map's length can change while the value stays the same
			}
			if v, ok := st.vals[arg]; ok {
				return fx.lenOf(st, v).T, true
			}
		}
	}
	return "", false
}

// ord: the number under which the contract of the function under verification knows a loop. Loops are
// numbered in source order of fx.fn; a call to a helper of the package that has no contract of its own (it is
// executed inline) contributes the helper's loops at the position of the call. On a tree where no such helper
// has loops this is the plain per-function numbering; after an "extract function" refactoring that moves
// annotated loops into a new helper the numbers stay the same.
func (fx *FnExec) ord(lp *Loop) int {
	if fx.flat == nil {
		fx.buildFlat()
	}
	if o, ok := fx.flat[lp]; ok {
		return o
	}
	return lp.ordinal
}

func (fx *FnExec) buildFlat() {
	fx.flat = map[*Loop]int{}
	if fx.fc == nil {
		return
	}
	n := 0
	seen := map[*ssa.Function]bool{}
	var walk func(fn *ssa.Function, depth int)
	walk = func(fn *ssa.Function, depth int) {
		seen[fn] = true
		type item struct {
			pos    token.Pos
			lp     *Loop
			callee *ssa.Function
		}
		var items []item
		for _, lp := range fx.loopsOf(fn) {
			if lp.stmt != nil {
				items = append(items, item{pos: lp.stmt.Pos(), lp: lp})
			}
		}
		if depth < 3 {
			for _, b := range fn.Blocks {
				for _, in := range b.Instrs {
					c, ok := in.(*ssa.Call)
					if !ok {
						continue
					}
					callee, ok := c.Common().Value.(*ssa.Function)
					if !ok || seen[callee] || !fx.eng.ours(callee) || len(callee.Blocks) == 0 || fx.eng.contractOf(callee) != nil || !c.Pos().IsValid() {
						continue
					}
					if len(fx.loopsOf(callee)) == 0 {
						continue
					}
					items = append(items, item{pos: c.Pos(), callee: callee})
				}
			}
		}
		sort.SliceStable(items, func(i, j int) bool { return items[i].pos < items[j].pos })
		for _, it := range items {
			if it.lp != nil {
				n++
				fx.flat[it.lp] = n
			} else if !seen[it.callee] {
				walk(it.callee, depth+1)
			}
		}
	}
	walk(fx.fn, 0)
}

// contractFor: the contract whose loop clauses describe lp: its function's own, or - for a helper without a
// contract that is executed inline - the contract of the function under verification.
func (fx *FnExec) contractFor(fn *ssa.Function) *FuncContract {
	if fc := fx.eng.contractOf(fn); fc != nil {
		return fc
	}
	if fn != fx.fn {
		if fx.flat == nil {
			fx.buildFlat()
		}
		for lp := range fx.flat {
			if lp.fn == fn {
				return fx.fc
			}
		}
	}
	return nil
}
