package main

import (
	"fmt"
	"go/types"
	"strings"

	"golang.org/x/tools/go/ssa"
)

// Val is a symbolic value: an SMT term with its sort and (when known) Go type.
type Val struct {
	T  string
	S  string
	GT types.Type
	M  interface{} // metadata: *Closure, []Val (tuple), *Enumerator, *KnownSlice ...
}

type Closure struct {
	Fn       *ssa.Function
	Bindings []ssa.Value
	BindVals []Val
	BindLocs []*Loc
}

// Enumerator models `range m` over a map, and a channel returned by Set.Iter().
type Enumerator struct {
	Key      string     // ghost key of the visited set in State.ghost
	KeySort  string     // sort of keys
	MapRef   Val        // map reference (maps)
	MapT     *types.Map // nil for set enumerators
	SetElems string     // term (Array Str Bool) for set enumerators, fixed at creation
	Instr    ssa.Instruction
}

// Loc is a symbolic address.
type Loc struct {
	Kind   int // 0 deref of pointer value, 1 field of parent, 2 element of slice
	Ptr    Val
	Parent *Loc
	Field  int
	Slice  Val
	Idx    string
	ET     types.Type // type stored at the location
}

const (
	LDeref = iota
	LField
	LIndex
)

type node struct {
	prev *node
	text string
	n    int
}

type LoopCtx struct {
	loop  *Loop
	entry *State // snapshot at first arrival (before havoc)
}

type State struct {
	decls      *node
	heap       map[string]string
	ghost      map[string]string
	vals       map[ssa.Value]Val
	locs       map[ssa.Value]*Loc
	active     map[*Loop]*LoopCtx
	alloc      string
	trace      []string
	depth      int
	frameID    int
	frameDepth int
	// call-frame linkage for inlined calls
	frame *Frame
	// call instructions of the helpers currently being executed inline (innermost last)
	callStack []*ssa.Call
}

type Frame struct {
	fn     *ssa.Function
	parent *Frame
	id     int
}

func (st *State) fork() *State {
	n := &State{decls: st.decls, alloc: st.alloc, depth: st.depth, frame: st.frame, frameID: st.frameID, frameDepth: st.frameDepth}
	n.heap = make(map[string]string, len(st.heap))
	for k, v := range st.heap {
		n.heap[k] = v
	}
	n.ghost = make(map[string]string, len(st.ghost))
	for k, v := range st.ghost {
		n.ghost[k] = v
	}
	n.vals = make(map[ssa.Value]Val, len(st.vals))
	for k, v := range st.vals {
		n.vals[k] = v
	}
	n.locs = make(map[ssa.Value]*Loc, len(st.locs))
	for k, v := range st.locs {
		n.locs[k] = v
	}
	n.active = make(map[*Loop]*LoopCtx, len(st.active))
	for k, v := range st.active {
		n.active[k] = v
	}
	n.trace = append([]string{}, st.trace...)
	n.callStack = append([]*ssa.Call{}, st.callStack...)
	return n
}

func (st *State) add(text string) {
	n := 1
	if st.decls != nil {
		n = st.decls.n + 1
	}
	st.decls = &node{prev: st.decls, text: text, n: n}
}

func (st *State) assume(f string) {
	if f == "" || f == "true" {
		return
	}
	st.add("(assert " + f + ")")
}

func (st *State) declsText() string {
	var parts []string
	for n := st.decls; n != nil; n = n.prev {
		parts = append(parts, n.text)
	}
	for i, j := 0, len(parts)-1; i < j; i, j = i+1, j-1 {
		parts[i], parts[j] = parts[j], parts[i]
	}
	return strings.Join(parts, "\n")
}

func and(fs ...string) string {
	var keep []string
	for _, f := range fs {
		if f != "" && f != "true" {
			keep = append(keep, f)
		}
	}
	switch len(keep) {
	case 0:
		return "true"
	case 1:
		return keep[0]
	}
	return "(and " + strings.Join(keep, " ") + ")"
}

func or(fs ...string) string {
	var keep []string
	for _, f := range fs {
		if f == "true" {
			return "true"
		}
		if f != "" && f != "false" {
			keep = append(keep, f)
		}
	}
	switch len(keep) {
	case 0:
		return "false"
	case 1:
		return keep[0]
	}
	return "(or " + strings.Join(keep, " ") + ")"
}

func not(f string) string {
	if f == "true" {
		return "false"
	}
	if f == "false" {
		return "true"
	}
	return "(not " + f + ")"
}

func implies(a, b string) string {
	if a == "true" {
		return b
	}
	return "(=> " + a + " " + b + ")"
}

func app(f string, args ...string) string {
	if len(args) == 0 {
		return f
	}
	return "(" + f + " " + strings.Join(args, " ") + ")"
}

func sel(a, i string) string      { return "(select " + a + " " + i + ")" }
func store(a, i, v string) string { return "(store " + a + " " + i + " " + v + ")" }

func ite(c, a, b string) string {
	if c == "true" {
		return a
	}
	if c == "false" {
		return b
	}
	return "(ite " + c + " " + a + " " + b + ")"
}

func sprintf(f string, a ...interface{}) string { return fmt.Sprintf(f, a...) }
