package main

// Tolerance for renamed locals and parameters. Contracts live in a separate file and name
// parameters and locals of the functions; a pure rename in /repo (same declarations, same types,
// same order, other names) must not make a contract stale. On the unchanged tree the list of
// declared variables of every function under contract is recorded (spec/locals.json, written with
// VERIF_RECORD_EXPECTED=1). When a name used by a contract is not found, and the function still
// declares the same number of variables with the same types in the same order, the name is looked
// up under the new name(s) of the variable(s) that carried it when the list was recorded.

import (
	"encoding/json"
	"fmt"
	"go/ast"
	"go/types"
	"os"
	"path/filepath"
	"sort"
	"strings"

	"golang.org/x/tools/go/ssa"
	"golang.org/x/tools/go/ssa/ssautil"
)

type localDecl struct {
	Name string `json:"name"`
	Type string `json:"type"`
}

// declaredVars lists the variables (parameters, results, locals) declared in fn's syntax, in source order.
func (eng *Engine) declaredVars(fn *ssa.Function) []localDecl {
	info := eng.typesInfo(fn)
	syn := fn.Syntax()
	if info == nil || syn == nil {
		return nil
	}
	type pv struct {
		pos  int
		decl localDecl
	}
	var all []pv
	ast.Inspect(syn, func(n ast.Node) bool {
		id, ok := n.(*ast.Ident)
		if !ok {
			return true
		}
		if v, ok := info.Defs[id].(*types.Var); ok && !v.IsField() && id.Name != "_" {
			all = append(all, pv{int(id.Pos()), localDecl{id.Name, types.TypeString(v.Type(), func(p *types.Package) string { return p.Name() })}})
		}
		return true
	})
	sort.Slice(all, func(i, j int) bool { return all[i].pos < all[j].pos })
	out := make([]localDecl, len(all))
	for i, x := range all {
		out[i] = x.decl
	}
	return out
}

func localsFile(specDir string) string { return filepath.Join(specDir, "locals.json") }

func (eng *Engine) loadRecordedLocals(specDir string) {
	eng.recordedLocals = map[string][]localDecl{}
	if b, err := os.ReadFile(localsFile(specDir)); err == nil {
		json.Unmarshal(b, &eng.recordedLocals)
	}
	eng.renames = map[*ssa.Function]map[string][]string{}
}

// recordLocals merges the declared variables of the given functions into spec/locals.json.
func (eng *Engine) recordLocals(specDir string, keys []string) {
	cur := map[string][]localDecl{}
	if b, err := os.ReadFile(localsFile(specDir)); err == nil {
		json.Unmarshal(b, &cur)
	}
	for _, k := range keys {
		if fn := eng.findFunc(k); fn != nil && eng.contracts.Funcs[k] != nil {
			cur[k] = eng.declaredVars(fn)
		}
	}
	b, _ := json.MarshalIndent(cur, "", " ")
	os.WriteFile(localsFile(specDir), b, 0o644)
}

// renamesOf: old name -> current name(s), when fn is the recorded function up to renaming.
func (eng *Engine) renamesOf(fn *ssa.Function) map[string][]string {
	if r, ok := eng.renames[fn]; ok {
		return r
	}
	r := map[string][]string{}
	eng.renames[fn] = r
	rec := eng.recordedLocals[eng.fnKey(fn)]
	cur := eng.declaredVars(fn)
	if len(rec) == 0 || len(rec) != len(cur) {
		return r
	}
	for i := range rec {
		if rec[i].Type != cur[i].Type {
			return r
		}
	}
	for i := range rec {
		if rec[i].Name != cur[i].Name {
			r[rec[i].Name] = append(r[rec[i].Name], cur[i].Name)
			eng.assumptions["contract names rebound after a rename in "+eng.fnKey(fn)+": "+rec[i].Name+" -> "+cur[i].Name+" (same declarations, same types, same order as recorded)"] = true
		}
	}
	return r
}

// recordedHas: did fn declare a variable of this name when its contract was recorded?
func (eng *Engine) recordedHas(fn *ssa.Function, name string) bool {
	rec, ok := eng.recordedLocals[eng.fnKey(fn)]
	if !ok {
		return true // nothing recorded: keep the ordinary lookup order
	}
	for _, d := range rec {
		if d.Name == name {
			return true
		}
	}
	return false
}

// harnessShims: Go source (one file per package directory, keyed by the directory relative to the repository
// root) that gives renamed functions their old names back, so that the replay harnesses - in-package tests that
// call the functions by the names they had when the harnesses were written - still compile.
var harnessShims = map[string]string{}

func (eng *Engine) buildHarnessShims() {
	harnessShims = map[string]string{}
	byPkg := map[*ssa.Package][]string{}
	imports := map[*ssa.Package]map[string]string{}
	var fns []*ssa.Function
	for fn := range ssautil.AllFunctions(eng.prog) {
		if fn.Pkg != nil && fn.Synthetic == "" && fn.Parent() == nil {
			if _, ok := eng.keyAlias[eng.rawKey(fn)]; ok {
				fns = append(fns, fn)
			}
		}
	}
	sort.Slice(fns, func(i, j int) bool { return eng.rawKey(fns[i]) < eng.rawKey(fns[j]) })
	for _, fn := range fns {
		old := eng.bareAlias[fn.Name()]
		if old == "" {
			continue
		}
		pkg := fn.Pkg
		if imports[pkg] == nil {
			imports[pkg] = map[string]string{}
		}
		qual := func(p *types.Package) string {
			if p == pkg.Pkg {
				return ""
			}
			imports[pkg][p.Path()] = p.Name()
			return p.Name()
		}
		sig := fn.Signature
		var ps, args []string
		for i := 0; i < sig.Params().Len(); i++ {
			t := sig.Params().At(i).Type()
			ts := types.TypeString(t, qual)
			a := fmt.Sprintf("a%d", i)
			if sig.Variadic() && i == sig.Params().Len()-1 {
				ts = "..." + types.TypeString(t.(*types.Slice).Elem(), qual)
				args = append(args, a+"...")
			} else {
				args = append(args, a)
			}
			ps = append(ps, a+" "+ts)
		}
		var rs []string
		for i := 0; i < sig.Results().Len(); i++ {
			rs = append(rs, types.TypeString(sig.Results().At(i).Type(), qual))
		}
		res := ""
		if len(rs) > 0 {
			res = " (" + strings.Join(rs, ", ") + ")"
		}
		ret := ""
		if len(rs) > 0 {
			ret = "return "
		}
		recv, call := "", fn.Name()
		if r := sig.Recv(); r != nil {
			recv = "(r " + types.TypeString(r.Type(), qual) + ") "
			call = "r." + fn.Name()
		}
		byPkg[pkg] = append(byPkg[pkg], fmt.Sprintf("func %s%s(%s)%s { %s%s(%s) }\n", recv, old, strings.Join(ps, ", "), res, ret, call, strings.Join(args, ", ")))
	}
	for pkg, decls := range byPkg {
		var b strings.Builder
		b.WriteString("package " + pkg.Pkg.Name() + "\n\n// generated by govc: old names of renamed functions, for the replay harnesses\n\n")
		var paths []string
		for p := range imports[pkg] {
			paths = append(paths, p)
		}
		sort.Strings(paths)
		for _, p := range paths {
			b.WriteString(fmt.Sprintf("import %s %q\n", imports[pkg][p], p))
		}
		b.WriteString("\n")
		for _, d := range decls {
			b.WriteString(d)
		}
		rel := strings.TrimPrefix(strings.TrimPrefix(pkg.Pkg.Path(), "go.1password.io/spg"), "/")
		harnessShims[rel] = b.String()
	}
}
