package main

// State merging at control-flow joins: instead of continuing every path separately after an
// if/switch, the paths that reach a join block are collected and continued once, with the
// path conditions combined as a disjunction of guarded suffixes. No information is dropped.

import (
	"fmt"
	"sort"
	"strings"

	"golang.org/x/tools/go/ssa"
)

type pendingJoin struct {
	block  *ssa.BasicBlock
	key    string
	states []*State
	k      cont
	depth  int
	frame  int
	rpo    int
}

func (fx *FnExec) mergeEnabled(fn *ssa.Function) bool {
	return fx.merge
}

// metaSig: Go-side metadata that cannot be merged symbolically.
func metaSig(st *State, b *ssa.BasicBlock) string {
	var parts []string
	dominates := func(v ssa.Value) bool {
		in, ok := v.(ssa.Instruction)
		if !ok {
			return true // parameters, free variables
		}
		return in.Block() != nil && in.Block().Dominates(b)
	}
	for v, x := range st.vals {
		if v.Parent() != b.Parent() || !dominates(v) {
			continue
		}
		switch m := x.M.(type) {
		case *Closure:
			parts = append(parts, fmt.Sprintf("%s=c%p", v.Name(), m.Fn))
		case *Enumerator:
			parts = append(parts, fmt.Sprintf("%s=e%s", v.Name(), m.Key))
		case *DynType:
			parts = append(parts, fmt.Sprintf("%s=d%s", v.Name(), m.T))
		case []Val:
			// tuples are consumed immediately; ignore
		}
	}
	for v, l := range st.locs {
		if v.Parent() != b.Parent() || !dominates(v) {
			continue
		}
		parts = append(parts, v.Name()+"@"+locSig(l))
	}
	sort.Strings(parts)
	return strings.Join(parts, ";")
}

func locSig(l *Loc) string {
	switch l.Kind {
	case LDeref:
		return "*" + l.Ptr.T
	case LField:
		return locSig(l.Parent) + fmt.Sprintf(".%d", l.Field)
	default:
		return "[" + l.Slice.T + "," + l.Idx + "]"
	}
}

func (fx *FnExec) joinKey(st *State, b *ssa.BasicBlock) string {
	var loops []string
	for lp, ctx := range st.active {
		loops = append(loops, fmt.Sprintf("%p/%p", lp, ctx))
	}
	sort.Strings(loops)
	return fmt.Sprintf("%p|f%d|%s|%s", b, st.frameID, strings.Join(loops, ","), metaSig(st, b))
}

func rpoIndex(b *ssa.BasicBlock) int {
	// approximate reverse postorder by a DFS over the CFG
	fn := b.Parent()
	seen := map[*ssa.BasicBlock]bool{}
	var post []*ssa.BasicBlock
	var dfs func(x *ssa.BasicBlock)
	dfs = func(x *ssa.BasicBlock) {
		seen[x] = true
		for _, s := range x.Succs {
			if !seen[s] {
				dfs(s)
			}
		}
		post = append(post, x)
	}
	dfs(fn.Blocks[0])
	for i, x := range post {
		if x == b {
			return len(post) - 1 - i
		}
	}
	return len(post)
}

// arriveAtJoin records a state at a join block; returns true if the caller must stop this path.
func (fx *FnExec) arriveAtJoin(st *State, b *ssa.BasicBlock, k cont, depth int) bool {
	key := fx.joinKey(st, b)
	pj := fx.pending[key]
	if pj == nil {
		pj = &pendingJoin{block: b, key: key, k: k, depth: depth, frame: st.frameDepth, rpo: rpoIndex(b)}
		fx.pending[key] = pj
		fx.pendingOrder = append(fx.pendingOrder, key)
	}
	pj.states = append(pj.states, st)
	return true
}

// drainJoins continues execution from pending joins until none is left.
func (fx *FnExec) drainJoins() {
	for len(fx.pending) > 0 {
		var best *pendingJoin
		for _, key := range fx.pendingOrder {
			pj := fx.pending[key]
			if pj == nil {
				continue
			}
			if best == nil || pj.frame > best.frame || (pj.frame == best.frame && pj.rpo < best.rpo) {
				best = pj
			}
		}
		if best == nil {
			return
		}
		delete(fx.pending, best.key)
		st := fx.mergeStates(best.states)
		fx.execFrom(st, best.block, 0, best.k, best.depth)
	}
}

func chain(n *node) []*node {
	var out []*node
	for ; n != nil; n = n.prev {
		out = append(out, n)
	}
	for i, j := 0, len(out)-1; i < j; i, j = i+1, j-1 {
		out[i], out[j] = out[j], out[i]
	}
	return out
}

func (fx *FnExec) mergeStates(states []*State) *State {
	if len(states) == 1 {
		return states[0]
	}
	eng := fx.eng
	chains := make([][]*node, len(states))
	for i, s := range states {
		chains[i] = chain(s.decls)
	}
	// common prefix
	cp := 0
	for {
		ok := true
		for _, c := range chains {
			if cp >= len(c) || c[cp] != chains[0][cp] {
				ok = false
				break
			}
		}
		if !ok {
			break
		}
		cp++
	}
	m := states[0].fork()
	if cp > 0 {
		m.decls = chains[0][cp-1]
	} else {
		m.decls = nil
	}
	sels := make([]string, len(states))
	declared := map[*node]bool{}
	for i, c := range chains {
		sels[i] = eng.fresh(m, "path", SBool)
		var guarded []string
		for _, nd := range c[cp:] {
			t := nd.text
			if strings.HasPrefix(t, "(declare-") {
				if !declared[nd] {
					declared[nd] = true
					m.add(t)
				}
				continue
			}
			if strings.HasPrefix(t, "(assert ") {
				body := t
				if k := strings.Index(body, ";@inv:"); k >= 0 {
					body = strings.TrimSpace(body[:k])
				}
				body = strings.TrimSuffix(strings.TrimPrefix(body, "(assert "), ")")
				guarded = append(guarded, body)
				continue
			}
			m.add(t)
		}
		if len(guarded) > 0 {
			m.add("(assert (=> " + sels[i] + " " + and(guarded...) + "))")
		}
	}
	m.add("(assert " + or(sels...) + ")")
	pick := func(name, srt string, terms []string) string {
		same := true
		for _, t := range terms {
			if t != terms[0] {
				same = false
			}
		}
		if same {
			return terms[0]
		}
		n := eng.fresh(m, "mg_"+name, srt)
		for i, t := range terms {
			m.add("(assert (=> " + sels[i] + " (= " + n + " " + t + ")))")
		}
		return n
	}
	// values
	m.vals = map[ssa.Value]Val{}
	var vkeys []ssa.Value
	for v := range states[0].vals {
		vkeys = append(vkeys, v)
	}
	sort.Slice(vkeys, func(i, j int) bool {
		a, b := vkeys[i], vkeys[j]
		an, bn := "", ""
		if a.Parent() != nil {
			an = a.Parent().String()
		}
		if b.Parent() != nil {
			bn = b.Parent().String()
		}
		if an != bn {
			return an < bn
		}
		if a.Name() != b.Name() {
			return a.Name() < b.Name()
		}
		return a.String() < b.String()
	})
	for _, v := range vkeys {
		x0 := states[0].vals[v]
		terms := []string{x0.T}
		ok := x0.S != "TUPLE" && x0.S != "ITER"
		for _, s := range states[1:] {
			x, has := s.vals[v]
			if !has || x.S != x0.S {
				ok = false
				break
			}
			terms = append(terms, x.T)
		}
		if x0.S == "ITER" {
			// iterators are identical objects on all paths (part of the join key)
			allHave := true
			for _, s := range states[1:] {
				if _, has := s.vals[v]; !has {
					allHave = false
				}
			}
			if allHave {
				m.vals[v] = x0
			}
			continue
		}
		if !ok {
			continue
		}
		nv := x0
		nv.T = pick(v.Name(), x0.S, terms)
		m.vals[v] = nv
	}
	m.locs = map[ssa.Value]*Loc{}
	for v, l := range states[0].locs {
		all := true
		for _, s := range states[1:] {
			l2, has := s.locs[v]
			if !has || locSig(l2) != locSig(l) {
				all = false
			}
		}
		if all {
			m.locs[v] = l
		}
	}
	// heaps and ghosts
	comps := map[string]bool{}
	for _, s := range states {
		for c := range s.heap {
			comps[c] = true
		}
	}
	m.heap = map[string]string{}
	var cnames []string
	for c := range comps {
		cnames = append(cnames, c)
	}
	sort.Strings(cnames)
	for _, c := range cnames {
		var terms []string
		for _, s := range states {
			terms = append(terms, eng.heapGet(s, c))
		}
		m.heap[c] = pick(c, eng.compSort[c], terms)
	}
	gks := map[string]bool{}
	for _, s := range states {
		for g := range s.ghost {
			gks[g] = true
		}
	}
	m.ghost = map[string]string{}
	var gnames []string
	for g := range gks {
		gnames = append(gnames, g)
	}
	sort.Strings(gnames)
	for _, g := range gnames {
		var terms []string
		ok := true
		for _, s := range states {
			if t, has := s.ghost[g]; has {
				terms = append(terms, t)
			} else if _, isGlobal := eng.ghosts[g]; isGlobal {
				terms = append(terms, eng.ghostGet(s, g))
			} else {
				ok = false
			}
		}
		if !ok {
			continue
		}
		srt := eng.ghosts[g]
		if srt == "" {
			srt = eng.loopEnumSort[g]
		}
		if srt == "" && strings.HasPrefix(g, "fg:") {
			parts := strings.Split(g, ":")
			if fc := fx.eng.contracts.Funcs[parts[1]]; fc != nil {
				srt = fc.ghostSort(parts[len(parts)-1])
			}
		}
		if srt == "" {
			srt = "(Array Int Int)"
		}
		m.ghost[g] = pick("g_"+g, srt, terms)
	}
	var allocs []string
	for _, s := range states {
		allocs = append(allocs, s.alloc)
	}
	m.alloc = pick("alloc", SInt, allocs)
	m.trace = append(append([]string{}, states[0].trace...), fmt.Sprintf("<merged %d paths>", len(states)))
	return m
}
