package main

// Assumed contracts of dependencies, implemented natively. Every model used is
// recorded in eng.assumptions and ends up in the evidence file.

import (
	"fmt"
	"go/ast"
	"go/types"
	"strings"

	"golang.org/x/tools/go/ssa"
)

func (fx *FnExec) trust(s string) { fx.eng.assumptions[s] = true }

func (fx *FnExec) freshErr(st *State, nonnil bool) Val {
	e := fx.eng.fresh(st, "err", SInt)
	if nonnil {
		st.assume("(> " + e + " 0)")
	} else {
		st.assume("(>= " + e + " 0)")
	}
	return Val{T: e, S: SInt, GT: types.Universe.Lookup("error").Type()}
}

func (fx *FnExec) extern(st *State, in *ssa.Call, fn *ssa.Function, args []Val, k cont) {
	eng := fx.eng
	name := fn.String()
	strT := types.Typ[types.String]
	if fx.externProc(st, in, fn, args, k) {
		return
	}
	switch name {
	case "crypto/rand.Read":
		fx.trust("extern crypto/rand.Read(b): err==nil => b[i]==tape[pos+i] for i<len(b), pos advances by len(b), n==len(b); err!=nil iff rngfail(pos); modifies only b's elements (io.ReadFull semantics; reads the OS CSPRNG = the ghost tape, A-RNG)")
		b := args[0]
		comp := eng.regSlice(types.Typ[types.Uint8])
		h := eng.heapGet(st, comp)
		pos := eng.ghostGet(st, "pos")
		tape := eng.ghostGet(st, "tape")
		e := fx.freshErr(st, false)
		st.assume("(= (not (= " + e.T + " 0)) (rngfail " + pos + "))")
		n := eng.fresh(st, "n", SInt)
		st.assume("(=> (= " + e.T + " 0) (= " + n + " (sl_len " + b.T + ")))")
		st.assume("(and (<= 0 " + n + ") (<= " + n + " (sl_len " + b.T + ")))")
		na := eng.fresh(st, "buf", "(Array Int Int)")
		j := eng.freshName("j")
		ar, of, ln := app("sl_arr", b.T), app("sl_off", b.T), app("sl_len", b.T)
		inr := "(and (<= " + of + " " + j + ") (< " + j + " (+ " + of + " " + ln + ")))"
		st.assume("(forall ((" + j + " Int)) (! (and (=> (and " + inr + " (= " + e.T + " 0)) (= (select " + na + " " + j + ") (select " + tape + " (+ " + pos + " (- " + j + " " + of + ")))))" +
			" (=> (not " + inr + ") (= (select " + na + " " + j + ") (select (select " + h + " " + ar + ") " + j + ")))" +
			" (and (<= 0 (select " + na + " " + j + ")) (<= (select " + na + " " + j + ") 255))) :pattern ((select " + na + " " + j + "))))")
		eng.heapSet(st, comp, store(h, ar, na))
		np := eng.fresh(st, "g_pos", SInt)
		st.assume("(=> (= " + e.T + " 0) (= " + np + " (+ " + pos + " " + ln + ")))")
		st.assume("(>= " + np + " " + pos + ")")
		st.ghost["pos"] = np
		k(st, []Val{{T: n, S: SInt, GT: types.Typ[types.Int]}, e})
	case "(encoding/binary.bigEndian).Uint32":
		fx.trust("extern binary.BigEndian.Uint32(b): requires len(b)>=4; result b[0]<<24|b[1]<<16|b[2]<<8|b[3]; pure")
		b := args[len(args)-1]
		fx.safety(st, "bounds", fx.siteName(in)+".Uint32", "(>= (sl_len "+b.T+") 4)")
		comp := eng.regSlice(types.Typ[types.Uint8])
		a := sel(eng.heapGet(st, comp), app("sl_arr", b.T))
		of := app("sl_off", b.T)
		t := fmt.Sprintf("(+ (* 16777216 (select %s (idx %s 0))) (* 65536 (select %s (idx %s 1))) (* 256 (select %s (idx %s 2))) (select %s (idx %s 3)))", a, of, a, of, a, of, a, of)
		k(st, []Val{{T: eng.define(st, "be32", SInt, t), S: SInt, GT: types.Typ[types.Uint32]}})
	case "strings.Split":
		s, sep := args[0], args[1]
		comp := eng.regSlice(strT)
		ref := fx.newRef(st)
		if sep.T == "eps" {
			fx.trust("extern strings.Split(s, \"\"): fresh slice of clen(s) elements, element i = i-th UTF-8 piece of s (pieces(s))")
			eng.heapSet(st, comp, store(eng.heapGet(st, comp), ref, app("pieces", s.T)))
			n := app("clen", s.T)
			k(st, []Val{{T: eng.define(st, "split", SSlice, "(mk_Slice "+ref+" 0 "+n+" "+n+")"), S: SSlice, GT: in.Type()}})
			return
		}
		fx.trust("extern strings.Split(s, sep) with non-empty sep: fresh non-empty slice of unconstrained strings")
		na := eng.fresh(st, "splitarr", "(Array Int Str)")
		eng.heapSet(st, comp, store(eng.heapGet(st, comp), ref, na))
		n := eng.fresh(st, "nsplit", SInt)
		st.assume("(>= " + n + " 1)")
		k(st, []Val{{T: "(mk_Slice " + ref + " 0 " + n + " " + n + ")", S: SSlice, GT: in.Type()}})
	case "strings.Fields":
		fx.trust("extern strings.Fields: fresh slice of unconstrained strings")
		comp := eng.regSlice(strT)
		ref := fx.newRef(st)
		na := eng.fresh(st, "fieldsarr", "(Array Int Str)")
		eng.heapSet(st, comp, store(eng.heapGet(st, comp), ref, na))
		n := eng.fresh(st, "nfields", SInt)
		st.assume("(>= " + n + " 0)")
		k(st, []Val{{T: "(mk_Slice " + ref + " 0 " + n + " " + n + ")", S: SSlice, GT: in.Type()}})
	case "strings.Join":
		xs, sep := args[0], args[1]
		if sep.T == "eps" {
			fx.trust("extern strings.Join(xs, \"\"): concatenation of the elements in order (joinseg); pure")
			comp := eng.regSlice(strT)
			a := sel(eng.heapGet(st, comp), app("sl_arr", xs.T))
			t := app("joinseg", a, app("sl_off", xs.T), "(+ "+app("sl_off", xs.T)+" "+app("sl_len", xs.T)+")")
			k(st, []Val{{T: eng.define(st, "join", SStr, t), S: SStr, GT: strT}})
			return
		}
		k(st, []Val{{T: eng.fresh(st, "joined", SStr), S: SStr, GT: strT}})
	case "strings.Title":
		fx.trust("extern strings.Title(s) = title(s); pure; title is idempotent and title(\"\")=\"\" (audited against the real function)")
		k(st, []Val{{T: app("title", args[0].T), S: SStr, GT: strT}})
	case "strings.ContainsAny":
		fx.trust("extern strings.ContainsAny(s, chars) <=> some piece of s equals some piece of chars (valid UTF-8 arguments)")
		k(st, []Val{{T: app("containsAny", args[0].T, args[1].T), S: SBool, GT: types.Typ[types.Bool]}})
	case "strings.Replace", "strings.ToLower", "strings.ToUpper", "strings.TrimSpace":
		fx.trust("extern " + name + ": pure, unconstrained result")
		k(st, []Val{{T: eng.fresh(st, "str", SStr), S: SStr, GT: strT}})
	case "unicode/utf8.RuneCountInString":
		fx.trust("extern utf8.RuneCountInString(s) = clen(s), the number of pieces strings.Split(s, \"\") yields")
		k(st, []Val{{T: app("clen", args[0].T), S: SInt, GT: types.Typ[types.Int]}})
	case "fmt.Errorf", "errors.New":
		fx.trust("extern fmt.Errorf: pure; returns a non-nil error")
		na := eng.fresh(st, "alloc", SInt)
		st.assume("(> " + na + " " + st.alloc + ")")
		st.alloc = na
		e := Val{T: na, S: SInt, GT: types.Universe.Lookup("error").Type()}
		k(st, []Val{e})
	case "fmt.Sprintf", "fmt.Sprint":
		fx.trust("extern fmt.Sprintf: pure; unconstrained string")
		k(st, []Val{{T: eng.fresh(st, "sprintf", SStr), S: SStr, GT: strT}})
	case "fmt.Printf", "fmt.Println", "fmt.Fprintf", "fmt.Print":
		fx.trust("extern fmt.Print*: writes to a stream; modifies no program memory")
		e := fx.freshErr(st, false)
		k(st, []Val{{T: eng.fresh(st, "n", SInt), S: SInt, GT: types.Typ[types.Int]}, e})
	case "log.Println", "log.Printf":
		fx.trust("extern log.Print*: writes to the process log; modifies no program memory")
		k(st, nil)
	case "math.Log2":
		fx.trust("extern math.Log2 = log2 over the reals (A-REAL)")
		k(st, []Val{{T: app("log2", args[0].T), S: SReal, GT: types.Typ[types.Float64]}})
	case "math.Pow":
		fx.trust("extern math.Pow = rpow over the reals (A-REAL)")
		k(st, []Val{{T: app("rpow", args[0].T, args[1].T), S: SReal, GT: types.Typ[types.Float64]}})
	case "math.Exp2":
		fx.trust("extern math.Exp2 = exp2 over the reals (A-REAL)")
		k(st, []Val{{T: app("exp2", args[0].T), S: SReal, GT: types.Typ[types.Float64]}})
	case "math/big.NewFloat":
		fx.trust("extern math/big.NewFloat(x): fresh *big.Float whose value is x (ghost model BIGF: pointer -> real value; A-REAL)")
		eng.regBig()
		ref := fx.newRef(st)
		eng.heapSet(st, bigFHeap, store(eng.heapGet(st, bigFHeap), ref, args[0].T))
		k(st, []Val{{T: ref, S: SInt, GT: in.Type()}})
	case "(*math/big.Float).SetInt":
		fx.trust("extern (*big.Float).SetInt(x): the receiver's value becomes the value of x (rounding to the receiver's precision is not modelled, A-REAL); returns the receiver; modifies only the receiver")
		eng.regBig()
		fx.safety(st, "nil", fx.siteName(in)+".big-receiver", "(not (= "+args[0].T+" 0))")
		fx.safety(st, "nil", fx.siteName(in)+".big-argument", "(not (= "+args[1].T+" 0))")
		eng.heapSet(st, bigFHeap, store(eng.heapGet(st, bigFHeap), args[0].T, "(to_real "+sel(eng.heapGet(st, bigIHeap), args[1].T)+")"))
		k(st, []Val{{T: args[0].T, S: SInt, GT: in.Type()}})
	case "(*math/big.Float).MantExp":
		fx.trust("extern (*big.Float).MantExp(mant): for a finite receiver x returns exp and sets mant with x = mant * 2^exp, 0.5 <= |mant| < 1 (mant = 0, exp = 0 for x = 0); stated for x >= 0 in logarithmic form log2 x = log2 mant + exp (A-REAL); modifies only mant")
		eng.regBig()
		fx.safety(st, "nil", fx.siteName(in)+".big-receiver", "(not (= "+args[0].T+" 0))")
		fx.safety(st, "subset", fx.siteName(in)+".mant-nonnil", "(not (= "+args[1].T+" 0))")
		fx.safety(st, "subset", fx.siteName(in)+".mant-distinct", "(not (= "+args[1].T+" "+args[0].T+"))")
		h := eng.heapGet(st, bigFHeap)
		x := eng.define(st, "bigx", SReal, sel(h, args[0].T))
		m := eng.fresh(st, "mant", SReal)
		e := eng.fresh(st, "exp", SInt)
		st.assume("(=> (= " + x + " 0.0) (and (= " + m + " 0.0) (= " + e + " 0)))")
		st.assume("(=> (> " + x + " 0.0) (and (<= 0.5 " + m + ") (< " + m + " 1.0) (= (log2 " + x + ") (+ (log2 " + m + ") (to_real " + e + ")))))")
		st.assume("(and (<= (- 2147483648) " + e + ") (<= " + e + " 2147483647))")
		eng.heapSet(st, bigFHeap, store(h, args[1].T, m))
		k(st, []Val{{T: e, S: SInt, GT: types.Typ[types.Int]}})
	case "(*math/big.Float).Float64":
		fx.trust("extern (*big.Float).Float64(): the receiver's value as a float64 (rounding not modelled, A-REAL) and an accuracy flag; pure")
		eng.regBig()
		fx.safety(st, "nil", fx.siteName(in)+".big-receiver", "(not (= "+args[0].T+" 0))")
		acc := eng.fresh(st, "acc", SInt)
		st.assume("(and (<= (- 1) " + acc + ") (<= " + acc + " 1))")
		rt := in.Type().(*types.Tuple)
		k(st, []Val{{T: sel(eng.heapGet(st, bigFHeap), args[0].T), S: SReal, GT: rt.At(0).Type()}, {T: acc, S: SInt, GT: rt.At(1).Type()}})
	case "sort.Strings":
		fx.trust("extern sort.Strings(xs): permutes xs in place into strictly-or-equal increasing byte order; modifies only xs's elements")
		xs := args[0]
		comp := eng.regSlice(strT)
		h := eng.heapGet(st, comp)
		ar, of, ln := app("sl_arr", xs.T), app("sl_off", xs.T), app("sl_len", xs.T)
		if !eng.freshIn(in.Common().Args[0], func(*ssa.BasicBlock) bool { return true }, map[ssa.Value]bool{}) {
			fx.frameCheck(st, in, ar, nil)
		}
		na := eng.fresh(st, "sorted", "(Array Int Str)")
		st.assume(app("sortedperm", sel(h, ar), na, of, ln))
		eng.heapSet(st, comp, store(h, ar, na))
		k(st, nil)
	case "github.com/deckarep/golang-set.NewSet":
		fx.trust("extern golang-set NewSet(): fresh empty set (ghost model elems: Array Str Bool)")
		if len(fn.Params) > 0 {
			fx.safety(st, "subset", fx.siteName(in)+".NewSet-noargs", "(= (sl_len "+args[0].T+") 0)")
		}
		eng.regSet()
		ref := fx.newRef(st)
		eng.heapSet(st, setHeap, store(eng.heapGet(st, setHeap), ref, "((as const (Array Str Bool)) false)"))
		k(st, []Val{{T: ref, S: SInt, GT: in.Type()}})
	default:
		// a function outside the package whose parameters and results are all of basic type cannot reach
		// any memory of the model: unconstrained results, nothing else changes
		sig := fn.Signature
		basic := func(t *types.Tuple) bool {
			for i := 0; i < t.Len(); i++ {
				if _, ok := t.At(i).Type().Underlying().(*types.Basic); !ok {
					return false
				}
			}
			return true
		}
		if sig.Recv() == nil && !sig.Variadic() && basic(sig.Params()) && basic(sig.Results()) && sig.Results().Len() > 0 {
			fx.trust("extern " + name + ": no assumed contract; parameters and results are of basic type, so it cannot touch modelled memory; results unconstrained")
			var res []Val
			for i := 0; i < sig.Results().Len(); i++ {
				t := sig.Results().At(i).Type()
				srt := eng.sorts.sortOf(t)
				n := eng.fresh(st, "ext_"+fn.Name(), srt)
				st.assume(eng.sorts.typeInv(t, n))
				res = append(res, Val{T: n, S: srt, GT: t})
			}
			k(st, res)
			return
		}
		fx.unsupp("no assumed contract for external function %s", name)
	}
}

func (fx *FnExec) invoke(st *State, in *ssa.Call, recv Val, m *types.Func, args []Val, k cont, depth int) {
	eng := fx.eng
	rt := in.Common().Value.Type().String()
	switch {
	case strings.HasSuffix(rt, "golang-set.Set"):
		eng.regSet()
		fx.trust("extern golang-set Set methods (Add/Union/Difference/Cardinality/Iter): point-wise set semantics on a ghost model; Union/Difference return fresh sets and modify nothing; internally synchronised (not verified)")
		fx.safety(st, "nil", fx.siteName(in)+".set-receiver", "(not (= "+recv.T+" 0))")
		h := eng.heapGet(st, setHeap)
		self := sel(h, recv.T)
		switch m.Name() {
		case "Add":
			fx.safety(st, "typeassert", fx.siteName(in)+".set-of-strings", app("isStr", args[0].T))
			x := app("unboxStr", args[0].T)
			// model invariant of the set heap: only one-character valid strings are ever added
			fx.emit(st, &Obligation{Kind: "pre", Name: fx.siteName(in) + ":set-of-characters", Goal: "(and (= (clen " + x + ") 1) (utf8ok " + x + "))"})
			st.assume("(and (= (clen " + x + ") 1) (utf8ok " + x + "))")
			was := sel(self, x)
			eng.heapSet(st, setHeap, store(h, recv.T, store(self, x, "true")))
			k(st, []Val{{T: not(was), S: SBool, GT: types.Typ[types.Bool]}})
		case "Union", "Difference":
			fx.safety(st, "nil", fx.siteName(in)+".set-argument", "(not (= "+args[0].T+" 0))")
			other := sel(h, args[0].T)
			ref := fx.newRef(st)
			na := eng.fresh(st, "set", "(Array Str Bool)")
			x := eng.freshName("x")
			body := "(or (select " + self + " " + x + ") (select " + other + " " + x + "))"
			if m.Name() == "Difference" {
				body = "(and (select " + self + " " + x + ") (not (select " + other + " " + x + ")))"
			}
			st.assume("(forall ((" + x + " Str)) (! (= (select " + na + " " + x + ") " + body + ") :pattern ((select " + na + " " + x + "))))")
			eng.heapSet(st, setHeap, store(h, ref, na))
			k(st, []Val{{T: ref, S: SInt, GT: in.Type()}})
		case "Cardinality":
			// T-CARD instantiated for this set: non-negative, and positive iff the set has a member
			d := eng.define(st, "setelems", "(Array Str Bool)", self)
			l := eng.fresh(st, "card", SInt)
			x := eng.freshName("x")
			eng.assumptions["T-CARD: Cardinality() of a set is its number of elements: non-negative, and >= 1 iff the set has a member"] = true
			st.assume("(= " + l + " (card " + d + "))")
			st.assume("(>= " + l + " 0)")
			st.assume("(forall ((" + x + " Str)) (! (=> (select " + d + " " + x + ") (>= " + l + " 1)) :pattern ((select " + d + " " + x + "))))")
			st.assume("(=> (>= " + l + " 1) (exists ((" + x + " Str)) (select " + d + " " + x + ")))")
			k(st, []Val{{T: l, S: SInt, GT: types.Typ[types.Int]}})
		case "Iter":
			key := fx.enumKeyFor(in)
			srt := "(Array Str Bool)"
			eng.loopEnumSort[key] = srt
			n := eng.fresh(st, "visited", srt)
			st.assume("(= " + n + " ((as const " + srt + ") false))")
			st.ghost[key] = n
			snap := eng.define(st, "iterset", srt, self)
			ref := fx.newRef(st)
			k(st, []Val{{T: ref, S: SInt, GT: in.Type(), M: &Enumerator{Key: key, KeySort: SStr, SetElems: snap, Instr: in}}})
		default:
			fx.unsupp("set method %s", m.Name())
		}
	case rt == "error":
		fx.trust("extern error.Error(): pure; unconstrained string")
		k(st, []Val{{T: eng.fresh(st, "errstr", SStr), S: SStr, GT: types.Typ[types.String]}})
	default:
		// dynamic dispatch on a value of known dynamic type
		if dt, ok := recv.M.(*DynType); ok {
			if f := eng.prog.LookupMethod(dt.T, m.Pkg(), m.Name()); f != nil {
				// pointer receiver wrappers: call the value method with a loaded receiver
				if f.Synthetic != "" {
					if et, isP := derefType(dt.T); isP {
						if vf := eng.prog.LookupMethod(et, m.Pkg(), m.Name()); vf != nil && vf.Synthetic == "" {
							rv := fx.loadAt(st, &Loc{Kind: LDeref, Ptr: recv, ET: et})
							fx.safety(st, "nil", fx.siteName(in)+".receiver", "(> "+recv.T+" 0)")
							fx.callFunc(st, in, vf, append([]Val{rv}, args...), nil, k, depth)
							return
						}
					}
				}
				fx.callFunc(st, in, f, append([]Val{recv}, args...), nil, k, depth)
				return
			}
		}
		fx.unsupp("interface call %s.%s on value of unknown dynamic type", rt, m.Name())
	}
}

type DynType struct{ T types.Type }

// immutableGlobal: package-level variables with literal initialisers that no function stores to.
func (eng *Engine) immutableGlobal(fx *FnExec, st *State, g *ssa.Global) (Val, bool) {
	tv, ok := g.Object().(*types.Var)
	if !ok {
		return Val{}, false
	}
	if eng.pkgContract[tv.Pkg().Name()] != nil {
		// the package's contracts describe its package state by invariants proved for init
		return Val{}, false
	}
	if eng.globalWritten(g) || tv.Exported() {
		// exported variables (MaxTrials, MaxFailRate) are configuration the user may change: inputs of every call
		return Val{}, false
	}
	init := eng.globalInit(tv)
	if init == nil {
		return Val{}, false
	}
	info := eng.typesInfoOfPkg(tv.Pkg())
	if info == nil {
		return Val{}, false
	}
	tvv, ok := info.Types[init]
	if !ok {
		return Val{}, false
	}
	if tvv.Value != nil {
		fx.trust("package variable " + tv.Name() + " is never assigned outside its initialiser (checked on every run): its value is the literal")
		return eng.constVal(tvv.Value, tv.Type()), true
	}
	cl, ok := init.(*ast.CompositeLit)
	if !ok {
		return Val{}, false
	}
	mt, ok := tv.Type().Underlying().(*types.Map)
	if !ok {
		return Val{}, false
	}
	// map literal with constant keys and values
	eng.regMap(mt)
	ks, vs := eng.sorts.sortOf(mt.Key()), eng.sorts.sortOf(mt.Elem())
	dom := eng.fresh(st, "gdom_"+tv.Name(), "(Array "+ks+" Bool)")
	val := eng.fresh(st, "gval_"+tv.Name(), "(Array "+ks+" "+vs+")")
	n := 0
	seen := map[string]bool{}
	var keyEqs []string
	x := eng.freshName("x")
	for _, el := range cl.Elts {
		kv, ok := el.(*ast.KeyValueExpr)
		if !ok {
			return Val{}, false
		}
		kt, vt := info.Types[kv.Key], info.Types[kv.Value]
		if kt.Value == nil || vt.Value == nil {
			return Val{}, false
		}
		kk := eng.constVal(kt.Value, mt.Key())
		vv := eng.constVal(vt.Value, mt.Elem())
		st.assume("(and (select " + dom + " " + kk.T + ") (= (select " + val + " " + kk.T + ") " + vv.T + "))")
		keyEqs = append(keyEqs, "(= "+x+" "+kk.T+")")
		if !seen[kt.Value.ExactString()] {
			seen[kt.Value.ExactString()] = true
			n++
		}
	}
	st.assume("(forall ((" + x + " " + ks + ")) (! (=> (select " + dom + " " + x + ") " + or(keyEqs...) + ") :pattern ((select " + dom + " " + x + "))))")
	fx.trust("package variable " + tv.Name() + " is never assigned outside its initialiser (checked on every run): its contents are the map literal")
	ref := eng.globalMapRef(tv)
	// the global's map object lives at a fixed negative reference; pin its components
	for _, pr := range [][2]string{{mapDom(mt), dom}, {mapVal(mt), val}, {mapLen, fmt.Sprint(n)}} {
		st.assume("(= (select " + eng.heapGet(st, pr[0]) + " " + ref + ") " + pr[1] + ")")
	}
	return Val{T: ref, S: SInt, GT: tv.Type()}, true
}

func (eng *Engine) globalMapRef(tv *types.Var) string {
	a := eng.globalAddr(tv)
	// distinct from the cell address: use address*1000 (still negative, unique)
	return "(- " + strings.TrimSuffix(strings.TrimPrefix(a, "(- "), ")") + "000)"
}

func (eng *Engine) typesInfoOfPkg(p *types.Package) *types.Info {
	for _, pk := range eng.pkgs {
		if pk.Types == p {
			return pk.TypesInfo
		}
	}
	return nil
}

func (eng *Engine) globalInit(tv *types.Var) ast.Expr {
	for _, pk := range eng.pkgs {
		if pk.Types != tv.Pkg() {
			continue
		}
		for _, f := range pk.Syntax {
			for _, d := range f.Decls {
				gd, ok := d.(*ast.GenDecl)
				if !ok {
					continue
				}
				for _, sp := range gd.Specs {
					vs, ok := sp.(*ast.ValueSpec)
					if !ok {
						continue
					}
					for i, n := range vs.Names {
						if pk.TypesInfo.Defs[n] == tv && i < len(vs.Values) && len(vs.Values) == len(vs.Names) {
							return vs.Values[i]
						}
					}
				}
			}
		}
	}
	return nil
}

// globalWritten: is there a Store to the global outside package initialisers?
func (eng *Engine) globalWritten(g *ssa.Global) bool {
	refs := map[*ssa.Global]bool{}
	_ = refs
	for _, sp := range eng.spkg {
		for _, m := range sp.Members {
			fn, ok := m.(*ssa.Function)
			if !ok {
				continue
			}
			if eng.fnWritesGlobal(fn, g) {
				return true
			}
		}
		// methods
		for _, m := range sp.Members {
			tn, ok := m.(*ssa.Type)
			if !ok {
				continue
			}
			for _, T := range []types.Type{tn.Type(), types.NewPointer(tn.Type())} {
				ms := eng.prog.MethodSets.MethodSet(T)
				for i := 0; i < ms.Len(); i++ {
					if f := eng.prog.MethodValue(ms.At(i)); f != nil && eng.fnWritesGlobal(f, g) {
						return true
					}
				}
			}
		}
	}
	return false
}

func (eng *Engine) fnWritesGlobal(fn *ssa.Function, g *ssa.Global) bool {
	if fn.Name() == "init" && fn.Synthetic != "" {
		return false
	}
	var visit func(f *ssa.Function) bool
	visit = func(f *ssa.Function) bool {
		for _, b := range f.Blocks {
			for _, in := range b.Instrs {
				switch x := in.(type) {
				case *ssa.Store:
					if x.Addr == ssa.Value(g) {
						return true
					}
				case *ssa.MapUpdate:
					if u, ok := x.Map.(*ssa.UnOp); ok && u.X == ssa.Value(g) {
						return true
					}
				default:
					// address escaping: the global passed as an argument or stored
					for _, op := range in.Operands(nil) {
						if *op == ssa.Value(g) {
							if _, isLoad := in.(*ssa.UnOp); !isLoad {
								return true
							}
						}
					}
				}
			}
		}
		for _, af := range f.AnonFuncs {
			if visit(af) {
				return true
			}
		}
		return false
	}
	return visit(fn)
}
