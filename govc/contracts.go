package main

// Parser for the //@ contract comment files kept in /repo behind the build tag.

import (
	"fmt"
	"go/ast"
	"go/parser"
	"os"
	"regexp"
	"strconv"
	"strings"
)

type Clause struct {
	Kind    string // requires ensures panics invariant modifies assume
	Loop    int    // loop ordinal for invariants (1-based)
	Props   []string
	Name    string
	Text    string
	Expr    ast.Expr // parsed (with ==> rewritten to implies())
	Line    int
	Func    string
	Trusted bool // postcondition assumed by callers but not proved from the body (listed in evidence)
}

type FuncContract struct {
	Key         string // function key as in ssa RelString, e.g. "(Tokens).MakeIndices"
	Requires    []*Clause
	Ensures     []*Clause
	Panics      []*Clause // exact panic conditions; absent => must not panic
	Raises      []*Clause // exact panic conditions that callers may let propagate (fail-closed faults)
	Invs        []*Clause
	Lemmas      []*Clause // proof steps at a return: each is proved from what precedes it, then assumed for the following lemmas and postconditions (not visible to callers)
	Specs       []*Clause // package section: definitions of spec functions, assumed in every function of the package
	PkgInvs     []*Clause // package section: facts about never-written package state, proved as postconditions of init
	CallGhosts  []*CallGhost
	Modifies    []string // ghost vars and heap components the function may change beyond fresh memory
	Uses        []string // opt-in lemma axioms available to this function's obligations
	Ghosts      []string // function-local ghost arrays (Array Int Int), existential for callers
	GhostSort   map[string]string
	GhostUpd    []*GhostUpd
	Defines     map[string]*Define
	NoMergeLoop map[int]bool // "nomerge loop k": enumerate the paths through the body of loop k (its joins are not merged)
	NoMerge     bool // do not merge symbolic states at control-flow joins (enumerate paths)
	Inline      bool // no contract: callers execute the body
	Trusted     bool // contract assumed, body not verified (must be listed)
	MayPanicRNG bool
	Pure        bool
	File        string
	Line        int
	Notes       []string
}

// GhostUpd: "loop k ghost G[idx] = val", executed when the loop body is entered.
type GhostUpd struct {
	Loop     int
	Name     string
	Idx, Val ast.Expr
	Line     int
}

// CallGhost: "call NAME#k ghost G[idx] = val", executed right after the k-th call of NAME returns
// (locals as at the call; res0.. = the call's results; recv = an invoked receiver with its dynamic type).
type CallGhost struct {
	Callee   string
	Ordinal  int
	Name     string
	Idx, Val ast.Expr
	Line     int
}

// Define: a contract-local macro "define f(a, b) = expr".
type Define struct {
	Params []string
	Body   ast.Expr
}

type ContractSet struct {
	Funcs map[string]*FuncContract
	Order []string
}

var clauseHead = regexp.MustCompile(`^(requires|ensures|trusted-ensures|panics|raises|assume|spec|invariant|lemma)\s*(\[[^\]]*\])?\s*([A-Za-z0-9_\-\.]+)\s*:\s*(.*)$`)
var retGhostHead = regexp.MustCompile(`^atreturn\s+ghost\s+([A-Za-z_][A-Za-z0-9_]*)(\[(.*?)\])?\s*=\s*(.*)$`)
var ghostSetHead = regexp.MustCompile(`^loop\s+(\d+)\s+ghost\s+([A-Za-z_][A-Za-z0-9_]*)\s*=\s*(.*)$`)
var ghostUpdHead = regexp.MustCompile(`^loop\s+(\d+)\s+ghost\s+([A-Za-z_][A-Za-z0-9_]*)\[(.*?)\]\s*=\s*(.*)$`)
var callGhostHead = regexp.MustCompile(`^call\s+([A-Za-z_][A-Za-z0-9_\.]*)#(\d+)\s+ghost\s+([A-Za-z_][A-Za-z0-9_]*)(\[(.*?)\])?\s*=\s*(.*)$`)
var defineHead = regexp.MustCompile(`^define\s+([A-Za-z_][A-Za-z0-9_]*)\(([^)]*)\)\s*=\s*(.*)$`)
var loopHead = regexp.MustCompile(`^loop\s+(\d+)\s+invariant\s*(\[[^\]]*\])?\s*([A-Za-z0-9_\-\.]+)\s*:\s*(.*)$`)

func parseContractFile(path string, cs *ContractSet) error {
	b, err := os.ReadFile(path)
	if err != nil {
		return err
	}
	var cur *FuncContract
	var last *Clause
	var pendingDefine *Define
	finish := func() error {
		if last != nil {
			e, err := parseContractExpr(last.Text)
			if err != nil {
				return fmt.Errorf("%s:%d: clause %s: %v", path, last.Line, last.Name, err)
			}
			last.Expr = e
			if last.Kind == "define" && pendingDefine != nil {
				pendingDefine.Body = e
				pendingDefine = nil
			}
			last = nil
		}
		return nil
	}
	for i, ln := range strings.Split(string(b), "\n") {
		t := strings.TrimSpace(ln)
		if !strings.HasPrefix(t, "//@") {
			continue
		}
		t = strings.TrimSpace(strings.TrimPrefix(t, "//@"))
		if k := strings.Index(t, " //"); k >= 0 { // trailing comment
			t = strings.TrimSpace(t[:k])
		}
		if t == "" || strings.HasPrefix(t, "//") {
			continue
		}
		if t == "package" {
			t = "func package"
		}
		if strings.HasPrefix(t, "func ") {
			if err := finish(); err != nil {
				return err
			}
			key := strings.TrimSpace(strings.TrimPrefix(t, "func "))
			cur = &FuncContract{Key: key, File: path, Line: i + 1}
			if _, dup := cs.Funcs[key]; dup {
				return fmt.Errorf("%s:%d: duplicate contract for %s", path, i+1, key)
			}
			cs.Funcs[key] = cur
			cs.Order = append(cs.Order, key)
			continue
		}
		if cur == nil {
			return fmt.Errorf("%s:%d: clause outside func", path, i+1)
		}
		if m := clauseHead.FindStringSubmatch(t); m != nil {
			if err := finish(); err != nil {
				return err
			}
			c := &Clause{Kind: m[1], Props: parseProps(m[2]), Name: m[3], Text: m[4], Line: i + 1, Func: cur.Key}
			switch c.Kind {
			case "requires", "assume":
				cur.Requires = append(cur.Requires, c)
			case "lemma":
				cur.Lemmas = append(cur.Lemmas, c)
			case "spec":
				cur.Specs = append(cur.Specs, c)
			case "invariant":
				cur.PkgInvs = append(cur.PkgInvs, c)
			case "ensures":
				cur.Ensures = append(cur.Ensures, c)
			case "trusted-ensures":
				c.Kind = "ensures"
				c.Trusted = true
				cur.Ensures = append(cur.Ensures, c)
			case "panics":
				cur.Panics = append(cur.Panics, c)
			case "raises":
				cur.Raises = append(cur.Raises, c)
			}
			last = c
			continue
		}
		if m := ghostUpdHead.FindStringSubmatch(t); m != nil {
			if err := finish(); err != nil {
				return err
			}
			n, _ := strconv.Atoi(m[1])
			ie, err := parseContractExpr(m[3])
			if err != nil {
				return fmt.Errorf("%s:%d: %v", path, i+1, err)
			}
			ve, err := parseContractExpr(m[4])
			if err != nil {
				return fmt.Errorf("%s:%d: %v", path, i+1, err)
			}
			cur.GhostUpd = append(cur.GhostUpd, &GhostUpd{Loop: n, Name: m[2], Idx: ie, Val: ve, Line: i + 1})
			continue
		}
		if m := callGhostHead.FindStringSubmatch(t); m != nil {
			if err := finish(); err != nil {
				return err
			}
			n, _ := strconv.Atoi(m[2])
			cg := &CallGhost{Callee: m[1], Ordinal: n, Name: m[3], Line: i + 1}
			if m[5] != "" {
				ie, err := parseContractExpr(m[5])
				if err != nil {
					return fmt.Errorf("%s:%d: %v", path, i+1, err)
				}
				cg.Idx = ie
			}
			ve, err := parseContractExpr(m[6])
			if err != nil {
				return fmt.Errorf("%s:%d: %v", path, i+1, err)
			}
			cg.Val = ve
			cur.CallGhosts = append(cur.CallGhosts, cg)
			continue
		}
		if m := retGhostHead.FindStringSubmatch(t); m != nil {
			if err := finish(); err != nil {
				return err
			}
			gu := &GhostUpd{Loop: -1, Name: m[1], Line: i + 1}
			if m[3] != "" {
				ie, err := parseContractExpr(m[3])
				if err != nil {
					return fmt.Errorf("%s:%d: %v", path, i+1, err)
				}
				gu.Idx = ie
			}
			ve, err := parseContractExpr(m[4])
			if err != nil {
				return fmt.Errorf("%s:%d: %v", path, i+1, err)
			}
			gu.Val = ve
			cur.GhostUpd = append(cur.GhostUpd, gu)
			continue
		}
		if m := ghostSetHead.FindStringSubmatch(t); m != nil {
			if err := finish(); err != nil {
				return err
			}
			n, _ := strconv.Atoi(m[1])
			ve, err := parseContractExpr(m[3])
			if err != nil {
				return fmt.Errorf("%s:%d: %v", path, i+1, err)
			}
			cur.GhostUpd = append(cur.GhostUpd, &GhostUpd{Loop: n, Name: m[2], Idx: nil, Val: ve, Line: i + 1})
			continue
		}
		if m := defineHead.FindStringSubmatch(t); m != nil {
			if err := finish(); err != nil {
				return err
			}
			d := &Define{}
			for _, x := range strings.Split(m[2], ",") {
				if x = strings.TrimSpace(x); x != "" {
					d.Params = append(d.Params, x)
				}
			}
			if cur.Defines == nil {
				cur.Defines = map[string]*Define{}
			}
			cur.Defines[m[1]] = d
			// the body may continue on following lines: use a pseudo clause
			c := &Clause{Kind: "define", Name: m[1], Text: m[3], Line: i + 1, Func: cur.Key}
			pendingDefine = d
			last = c
			continue
		}
		if strings.HasPrefix(t, "ghost ") {
			if err := finish(); err != nil {
				return err
			}
			decl := strings.TrimSpace(strings.TrimPrefix(t, "ghost "))
			if cur.GhostSort == nil {
				cur.GhostSort = map[string]string{}
			}
			if k := strings.Index(decl, " ("); k > 0 && !strings.Contains(decl[:k], ",") {
				// "ghost NAME (Array Int Str)": explicit sort
				cur.Ghosts = append(cur.Ghosts, decl[:k])
				srt := strings.TrimSpace(decl[k:])
				if !strings.Contains(srt, " ") {
					srt = strings.Trim(srt, "()") // "(Str)": a plain sort
				}
				cur.GhostSort[decl[:k]] = srt
				continue
			}
			for _, x := range strings.Split(decl, ",") {
				if x = strings.TrimSpace(x); x != "" {
					cur.Ghosts = append(cur.Ghosts, x)
					cur.GhostSort[x] = "(Array Int Int)"
				}
			}
			continue
		}
		if m := loopHead.FindStringSubmatch(t); m != nil {
			if err := finish(); err != nil {
				return err
			}
			n, _ := strconv.Atoi(m[1])
			c := &Clause{Kind: "invariant", Loop: n, Props: parseProps(m[2]), Name: m[3], Text: m[4], Line: i + 1, Func: cur.Key}
			cur.Invs = append(cur.Invs, c)
			last = c
			continue
		}
		switch {
		case strings.HasPrefix(t, "modifies"):
			if err := finish(); err != nil {
				return err
			}
			for _, x := range strings.Split(strings.TrimSpace(strings.TrimPrefix(t, "modifies")), ",") {
				if x = strings.TrimSpace(x); x != "" {
					cur.Modifies = append(cur.Modifies, x)
				}
			}
		case strings.HasPrefix(t, "uses"):
			if err := finish(); err != nil {
				return err
			}
			for _, x := range strings.Split(strings.TrimSpace(strings.TrimPrefix(t, "uses")), ",") {
				if x = strings.TrimSpace(x); x != "" {
					cur.Uses = append(cur.Uses, x)
				}
			}
		case t == "nomerge":
			cur.NoMerge = true
		case strings.HasPrefix(t, "nomerge loop "):
			n, err := strconv.Atoi(strings.TrimSpace(strings.TrimPrefix(t, "nomerge loop ")))
			if err != nil {
				return fmt.Errorf("%s:%d: bad loop ordinal in %q", path, i+1, t)
			}
			if cur.NoMergeLoop == nil {
				cur.NoMergeLoop = map[int]bool{}
			}
			cur.NoMergeLoop[n] = true
		case t == "inline":
			cur.Inline = true
		case t == "trusted":
			cur.Trusted = true
		case t == "pure":
			cur.Pure = true
		case strings.HasPrefix(t, "note"):
			cur.Notes = append(cur.Notes, strings.TrimSpace(strings.TrimPrefix(t, "note")))
		default:
			if last == nil {
				return fmt.Errorf("%s:%d: cannot parse contract line %q", path, i+1, t)
			}
			last.Text += " " + t
		}
	}
	return finish()
}

func parseProps(s string) []string {
	s = strings.Trim(s, "[] ")
	if s == "" {
		return nil
	}
	var out []string
	for _, x := range strings.Split(s, ",") {
		out = append(out, strings.TrimSpace(x))
	}
	return out
}

// parseContractExpr turns "a ==> b" into implies(a, b) (right associative, top level of each
// parenthesis group) and parses the result as a Go expression.
func parseContractExpr(s string) (ast.Expr, error) {
	r := rewriteImplies(s)
	e, err := parser.ParseExpr(r)
	if err != nil {
		return nil, fmt.Errorf("%v in %q", err, r)
	}
	return e, nil
}

func rewriteImplies(s string) string {
	// process innermost groups first by recursive descent over parentheses
	var out strings.Builder
	i := 0
	var segs []string // top-level pieces split at ==>
	var cur strings.Builder
	for i < len(s) {
		c := s[i]
		switch {
		case c == '(' || c == '[':
			// find matching
			open, close := c, byte(')')
			if c == '[' {
				close = ']'
			}
			depth := 0
			j := i
			for ; j < len(s); j++ {
				if s[j] == open {
					depth++
				} else if s[j] == close {
					depth--
					if depth == 0 {
						break
					}
				} else if s[j] == '"' {
					j++
					for j < len(s) && s[j] != '"' {
						j++
					}
				}
			}
			if j >= len(s) {
				cur.WriteString(s[i:])
				i = len(s)
				continue
			}
			inner := s[i+1 : j]
			cur.WriteByte(open)
			// split inner at top-level commas, rewrite each
			parts := splitTop(inner, ',')
			for k, p := range parts {
				if k > 0 {
					cur.WriteByte(',')
				}
				cur.WriteString(rewriteImplies(p))
			}
			cur.WriteByte(close)
			i = j + 1
		case c == '"':
			j := i + 1
			for j < len(s) && s[j] != '"' {
				j++
			}
			cur.WriteString(s[i:min(j+1, len(s))])
			i = j + 1
		case strings.HasPrefix(s[i:], "==>"):
			segs = append(segs, cur.String())
			cur.Reset()
			i += 3
		default:
			cur.WriteByte(c)
			i++
		}
	}
	segs = append(segs, cur.String())
	if len(segs) == 1 {
		return segs[0]
	}
	// right associative
	res := segs[len(segs)-1]
	for k := len(segs) - 2; k >= 0; k-- {
		res = "implies(" + segs[k] + ", " + res + ")"
	}
	out.WriteString(res)
	return out.String()
}

func splitTop(s string, sep byte) []string {
	var parts []string
	depth := 0
	st := 0
	for i := 0; i < len(s); i++ {
		switch s[i] {
		case '(', '[':
			depth++
		case ')', ']':
			depth--
		case '"':
			i++
			for i < len(s) && s[i] != '"' {
				i++
			}
		default:
			if s[i] == sep && depth == 0 {
				parts = append(parts, s[st:i])
				st = i + 1
			}
		}
	}
	parts = append(parts, s[st:])
	return parts
}
