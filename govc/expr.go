package main

// Translation of contract expressions (Go expression syntax plus a few spec
// forms) into SMT terms over a symbolic state.

import (
	"fmt"
	"go/ast"
	"go/constant"
	"go/token"
	"go/types"
	"math/big"
	"strings"
)

type Env struct {
	fc        *FuncContract // contract whose clauses are being translated (macros, ghosts)
	fx        *FnExec
	cur       *State
	old       *State         // function entry state, for old()
	loopEntry *State         // for entry()
	vars      map[string]Val // parameters, results, quantified variables
	local     func(string) (Val, bool)
	loop      *Loop // loop whose invariant is being translated (for visited())
	pkg       *types.Package
}

type trErr struct{ msg string }

func (e *Env) fail(f string, a ...interface{}) { panic(trErr{fmt.Sprintf(f, a...)}) }

func (e *Env) with(st *State) *Env {
	n := *e
	n.cur = st
	return &n
}

func (e *Env) bind(name string, v Val) *Env {
	n := *e
	n.vars = map[string]Val{}
	for k, x := range e.vars {
		n.vars[k] = x
	}
	n.vars[name] = v
	return &n
}

// trBool translates an expression that must be Bool.
func (e *Env) trBool(x ast.Expr) string {
	v := e.tr(x)
	if v.S != SBool {
		e.fail("expected Bool, got %s for %s", v.S, exprString(x))
	}
	return v.T
}

func exprString(x ast.Expr) string {
	return types.ExprString(x)
}

func (e *Env) tr(x ast.Expr) Val {
	eng := e.fx.eng
	switch x := x.(type) {
	case *ast.ParenExpr:
		return e.tr(x.X)
	case *ast.BasicLit:
		switch x.Kind {
		case token.INT:
			n, _ := new(big.Int).SetString(x.Value, 0)
			return Val{T: smtInt(n), S: SInt}
		case token.FLOAT:
			r, _ := new(big.Rat).SetString(x.Value)
			return Val{T: smtRat(r), S: SReal}
		case token.STRING:
			s := constant.StringVal(constant.MakeFromLiteral(x.Value, token.STRING, 0))
			return Val{T: eng.strLit(s), S: SStr, GT: types.Typ[types.String]}
		}
	case *ast.Ident:
		return e.ident(x.Name)
	case *ast.UnaryExpr:
		v := e.tr(x.X)
		switch x.Op {
		case token.NOT:
			return Val{T: not(v.T), S: SBool}
		case token.SUB:
			return Val{T: "(- " + v.T + ")", S: v.S, GT: v.GT}
		}
	case *ast.StarExpr:
		v := e.tr(x.X)
		if p, ok := derefType(v.GT); ok {
			return e.fx.loadAt(e.cur, &Loc{Kind: LDeref, Ptr: v, ET: p})
		}
		e.fail("cannot dereference %s", exprString(x.X))
	case *ast.BinaryExpr:
		return e.binary(x)
	case *ast.SelectorExpr:
		// package-qualified constant?
		if id, ok := x.X.(*ast.Ident); ok {
			if _, bound := e.lookupVar(id.Name); !bound {
				if v, ok := e.qualified(id.Name, x.Sel.Name); ok {
					return v
				}
			}
		}
		v := e.tr(x.X)
		return e.field(v, x.Sel.Name)
	case *ast.IndexExpr:
		base := e.tr(x.X)
		idx := e.tr(x.Index)
		return e.index(base, idx)
	case *ast.CallExpr:
		return e.call(x)
	}
	e.fail("unsupported contract expression %s", exprString(x))
	return Val{}
}

func derefType(t types.Type) (types.Type, bool) {
	if t == nil {
		return nil, false
	}
	if p, ok := t.Underlying().(*types.Pointer); ok {
		return p.Elem(), true
	}
	return nil, false
}

func (e *Env) lookupVar(name string) (Val, bool) {
	if v, ok := e.vars[name]; ok {
		return v, true
	}
	if e.local != nil {
		if v, ok := e.local(name); ok {
			return v, true
		}
	}
	return Val{}, false
}

func (e *Env) ident(name string) Val {
	eng := e.fx.eng
	switch name {
	case "true", "false":
		return Val{T: name, S: SBool}
	case "nil":
		return Val{T: "0", S: SInt}
	case "alloc":
		return Val{T: e.cur.alloc, S: SInt}
	}
	if g, ok := eng.ghosts[name]; ok && e.fx != nil && e.fx.fn != nil && !eng.recordedHas(e.fx.fn, name) {
		// a ghost-state name that was not a variable of the function when its contract was written denotes the
		// ghost, even if an edit in /repo has since introduced a variable of that name
		if _, isVar := e.vars[name]; !isVar {
			return Val{T: eng.ghostGet(e.cur, name), S: g}
		}
	}
	if v, ok := e.lookupVar(name); ok {
		return v
	}
	if g, ok := eng.ghosts[name]; ok {
		return Val{T: eng.ghostGet(e.cur, name), S: g}
	}
	if e.fc != nil {
		for _, g := range e.fc.Ghosts {
			if g == name {
				if t, ok := e.cur.ghost["fg:"+e.fc.Key+":"+name]; ok {
					return Val{T: t, S: e.fc.ghostSort(name)}
				}
				e.fail("function ghost %s not available in this state", name)
			}
		}
	}
	// package-level constant or variable of the function's package
	if e.pkg != nil {
		if v, ok := e.pkgObject(e.pkg, name); ok {
			return v
		}
	}
	// prelude constant
	if it, ok := eng.prelude.BySym[name]; ok && len(it.ArgS) == 0 && (it.Kind == "declare" || it.Kind == "define") {
		return Val{T: name, S: it.ResS}
	}
	e.fail("unknown identifier %q", name)
	return Val{}
}

func (e *Env) pkgObject(pkg *types.Package, name string) (Val, bool) {
	obj := pkg.Scope().Lookup(name)
	if obj == nil {
		return Val{}, false
	}
	switch o := obj.(type) {
	case *types.Const:
		return e.fx.eng.constVal(o.Val(), o.Type()), true
	case *types.Var:
		// global variable: load from its cell
		g := e.fx.eng.globalAddr(o)
		return e.fx.loadAt(e.cur, &Loc{Kind: LDeref, Ptr: Val{T: g, S: SInt}, ET: o.Type()}), true
	}
	return Val{}, false
}

func (e *Env) qualified(pkgName, sel string) (Val, bool) {
	if e.pkg == nil {
		return Val{}, false
	}
	for _, imp := range e.fx.eng.allImports(e.pkg) {
		if imp.Name() == pkgName {
			return e.pkgObject(imp, sel)
		}
	}
	return Val{}, false
}

func (e *Env) field(v Val, name string) Val {
	eng := e.fx.eng
	t := v.GT
	if t == nil {
		// datatype-sorted spec value: find selector by sort
		if si, ok := eng.sorts.structs[v.S]; ok {
			for i, f := range si.Fields {
				if f == si.Sort+"_"+name {
					return Val{T: app(f, v.T), S: si.FSorts[i], GT: si.T.Field(i).Type()}
				}
			}
		}
		e.fail("cannot select field %s of untyped value %s", name, v.T)
	}
	if p, ok := derefType(t); ok {
		v = e.fx.loadAt(e.cur, &Loc{Kind: LDeref, Ptr: v, ET: p})
		t = p
	}
	st, ok := t.Underlying().(*types.Struct)
	if !ok {
		e.fail("field %s of non-struct %s", name, t)
	}
	si := eng.sorts.structOf(t)
	for i := 0; i < st.NumFields(); i++ {
		if st.Field(i).Name() == name {
			return Val{T: app(si.Fields[i], v.T), S: si.FSorts[i], GT: st.Field(i).Type()}
		}
	}
	e.fail("no field %s in %s", name, t)
	return Val{}
}

func (e *Env) index(base, idx Val) Val {
	eng := e.fx.eng
	if base.GT != nil {
		switch u := base.GT.Underlying().(type) {
		case *types.Slice:
			comp := eng.regSlice(u.Elem())
			h := eng.heapGet(e.cur, comp)
			return Val{T: sel(sel(h, app("sl_arr", base.T)), app("idx", app("sl_off", base.T), idx.T)), S: eng.sorts.sortOf(u.Elem()), GT: u.Elem()}
		case *types.Map:
			comp := mapVal(u)
			eng.regMap(u)
			h := eng.heapGet(e.cur, comp)
			return Val{T: sel(sel(h, base.T), idx.T), S: eng.sorts.sortOf(u.Elem()), GT: u.Elem()}
		}
	}
	if strings.HasPrefix(base.S, "(Array ") {
		_, rs := arraySorts(base.S)
		return Val{T: sel(base.T, idx.T), S: rs}
	}
	e.fail("cannot index value of sort %s", base.S)
	return Val{}
}

// arraySorts splits "(Array K V)" into K and V.
func arraySorts(s string) (string, string) {
	fs, err := parseSexps(s)
	if err != nil || len(fs) != 1 || !fs[0].IsL || len(fs[0].List) != 3 {
		return "", ""
	}
	return fs[0].List[1].String(), fs[0].List[2].String()
}

func (e *Env) coerceReal(a, b *Val) {
	if a.S == SReal && b.S == SInt {
		b.T = "(to_real " + b.T + ")"
		b.S = SReal
	} else if a.S == SInt && b.S == SReal {
		a.T = "(to_real " + a.T + ")"
		a.S = SReal
	}
}

func (e *Env) binary(x *ast.BinaryExpr) Val {
	a := e.tr(x.X)
	b := e.tr(x.Y)
	switch x.Op {
	case token.LAND:
		return Val{T: and(a.T, b.T), S: SBool}
	case token.LOR:
		return Val{T: or(a.T, b.T), S: SBool}
	case token.EQL, token.NEQ:
		e.coerceReal(&a, &b)
		if a.S != b.S {
			e.fail("comparison of different sorts %s and %s in %s", a.S, b.S, exprString(x))
		}
		t := "(= " + a.T + " " + b.T + ")"
		if x.Op == token.NEQ {
			t = not(t)
		}
		return Val{T: t, S: SBool}
	case token.LSS, token.LEQ, token.GTR, token.GEQ:
		e.coerceReal(&a, &b)
		op := map[token.Token]string{token.LSS: "<", token.LEQ: "<=", token.GTR: ">", token.GEQ: ">="}[x.Op]
		return Val{T: "(" + op + " " + a.T + " " + b.T + ")", S: SBool}
	case token.ADD:
		if a.S == SStr {
			return Val{T: app("cat", a.T, b.T), S: SStr, GT: a.GT}
		}
		e.coerceReal(&a, &b)
		return Val{T: "(+ " + a.T + " " + b.T + ")", S: a.S}
	case token.SUB:
		e.coerceReal(&a, &b)
		return Val{T: "(- " + a.T + " " + b.T + ")", S: a.S}
	case token.MUL:
		e.coerceReal(&a, &b)
		return Val{T: "(* " + a.T + " " + b.T + ")", S: a.S}
	case token.QUO:
		e.coerceReal(&a, &b)
		if a.S == SReal {
			return Val{T: "(/ " + a.T + " " + b.T + ")", S: SReal}
		}
		return Val{T: "(div " + a.T + " " + b.T + ")", S: SInt}
	case token.REM:
		return Val{T: "(mod " + a.T + " " + b.T + ")", S: SInt}
	}
	e.fail("unsupported operator %s", x.Op)
	return Val{}
}

func sortFromBinder(name string) string {
	switch name {
	case "int":
		return SInt
	case "str":
		return SStr
	case "real":
		return SReal
	case "boolean":
		return SBool
	}
	return name
}

func (e *Env) call(x *ast.CallExpr) Val {
	eng := e.fx.eng
	fname := ""
	switch f := x.Fun.(type) {
	case *ast.Ident:
		fname = f.Name
	case *ast.SelectorExpr:
		if id, ok := f.X.(*ast.Ident); ok {
			fname = id.Name + "." + f.Sel.Name
		}
	}
	if e.fc != nil && e.fc.Defines != nil {
		if d, ok := e.fc.Defines[fname]; ok {
			if len(d.Params) != len(x.Args) {
				e.fail("macro %s expects %d arguments", fname, len(d.Params))
			}
			env := e
			for i, pn := range d.Params {
				env = env.bind(pn, e.tr(x.Args[i]))
			}
			return env.tr(d.Body)
		}
	}
	switch fname {
	case "closureof":
		// closureof(v, "F$1"): v is (on this path) the function value made from that function literal
		v := e.tr(x.Args[0])
		lit, ok := x.Args[1].(*ast.BasicLit)
		if !ok {
			e.fail("closureof(value, \"name\")")
		}
		want := strings.Trim(lit.Value, "\"`")
		if cl, ok := v.M.(*Closure); ok && cl.Fn != nil && strings.HasSuffix(eng.fnKey(cl.Fn), "."+want) {
			return Val{T: "true", S: SBool}
		}
		return Val{T: "false", S: SBool}
	case "mapval":
		// the stored value, not gated by membership (use together with dom())
		m := e.tr(x.Args[0])
		k := e.tr(x.Args[1])
		mt, ok := m.GT.Underlying().(*types.Map)
		if !ok {
			e.fail("mapval() of non-map")
		}
		eng.regMap(mt)
		return Val{T: sel(sel(eng.heapGet(e.cur, mapVal(mt)), m.T), k.T), S: eng.sorts.sortOf(mt.Elem()), GT: mt.Elem()}
	case "lookup":
		m := e.tr(x.Args[0])
		k := e.tr(x.Args[1])
		mt, ok := m.GT.Underlying().(*types.Map)
		if !ok {
			e.fail("lookup() of non-map")
		}
		eng.regMap(mt)
		dom := sel(sel(eng.heapGet(e.cur, mapDom(mt)), m.T), k.T)
		val := sel(sel(eng.heapGet(e.cur, mapVal(mt)), m.T), k.T)
		return Val{T: ite(dom, val, eng.sorts.zero(mt.Elem())), S: eng.sorts.sortOf(mt.Elem()), GT: mt.Elem()}
	case "old":
		if e.old == nil {
			e.fail("old() not available here")
		}
		return e.with(e.old).tr(x.Args[0])
	case "entry":
		if e.loopEntry == nil {
			e.fail("entry() only in loop invariants")
		}
		return e.with(e.loopEntry).tr(x.Args[0])
	case "forall", "exists":
		// forall(int(i), int(j), body)
		env := e
		var binders []string
		var trigs []*ast.CallExpr
		for _, a := range x.Args[:len(x.Args)-1] {
			c, ok := a.(*ast.CallExpr)
			if ok && exprString(c.Fun) == "trig" {
				trigs = append(trigs, c)
				continue
			}
			if !ok || len(c.Args) != 1 {
				e.fail("bad binder in %s", exprString(x))
			}
			srt := sortFromBinder(exprString(c.Fun))
			vn := exprString(c.Args[0])
			sn := eng.freshName("q_" + vn)
			binders = append(binders, "("+sn+" "+srt+")")
			env = env.bind(vn, Val{T: sn, S: srt})
		}
		body := env.trBool(x.Args[len(x.Args)-1])
		if len(trigs) > 0 {
			// explicit instantiation patterns: trig(t1, t2) is one multi-pattern
			body = "(! " + body
			for _, tc := range trigs {
				var ts []string
				for _, ta := range tc.Args {
					ts = append(ts, env.tr(ta).T)
				}
				body += " :pattern (" + strings.Join(ts, " ") + ")"
			}
			body += ")"
		}
		return Val{T: "(" + fname + " (" + strings.Join(binders, " ") + ") " + body + ")", S: SBool}
	case "implies":
		return Val{T: implies(e.trBool(x.Args[0]), e.trBool(x.Args[1])), S: SBool}
	case "ite":
		c := e.trBool(x.Args[0])
		a := e.tr(x.Args[1])
		b := e.tr(x.Args[2])
		e.coerceReal(&a, &b)
		return Val{T: ite(c, a.T, b.T), S: a.S, GT: a.GT}
	case "len":
		v := e.tr(x.Args[0])
		return e.fx.lenOf(e.cur, v)
	case "cap":
		v := e.tr(x.Args[0])
		return Val{T: app("sl_cap", v.T), S: SInt}
	case "arr":
		v := e.tr(x.Args[0])
		sl, ok := v.GT.Underlying().(*types.Slice)
		if !ok {
			e.fail("arr() of non-slice")
		}
		comp := eng.regSlice(sl.Elem())
		es := eng.sorts.sortOf(sl.Elem())
		return Val{T: sel(eng.heapGet(e.cur, comp), app("sl_arr", v.T)), S: "(Array Int " + es + ")"}
	case "off":
		v := e.tr(x.Args[0])
		return Val{T: app("sl_off", v.T), S: SInt}
	case "end":
		v := e.tr(x.Args[0])
		return Val{T: "(+ " + app("sl_off", v.T) + " " + app("sl_len", v.T) + ")", S: SInt}
	case "arrid":
		v := e.tr(x.Args[0])
		return Val{T: app("sl_arr", v.T), S: SInt}
	case "dom":
		m := e.tr(x.Args[0])
		k := e.tr(x.Args[1])
		mt, ok := m.GT.Underlying().(*types.Map)
		if !ok {
			e.fail("dom() of non-map")
		}
		eng.regMap(mt)
		return Val{T: sel(sel(eng.heapGet(e.cur, mapDom(mt)), m.T), k.T), S: SBool}
	case "domset":
		m := e.tr(x.Args[0])
		mt, ok := m.GT.Underlying().(*types.Map)
		if !ok {
			e.fail("domset() of non-map")
		}
		eng.regMap(mt)
		return Val{T: sel(eng.heapGet(e.cur, mapDom(mt)), m.T), S: "(Array " + eng.sorts.sortOf(mt.Key()) + " Bool)"}
	case "bigval":
		s := e.tr(x.Args[0])
		eng.regBig()
		return Val{T: sel(eng.heapGet(e.cur, bigIHeap), s.T), S: SInt}
	case "elems":
		s := e.tr(x.Args[0])
		eng.regSet()
		return Val{T: sel(eng.heapGet(e.cur, setHeap), s.T), S: "(Array Str Bool)"}
	case "visited":
		if e.loop == nil || e.loop.enumKey == "" {
			e.fail("visited() outside a map/set range loop")
		}
		k := e.tr(x.Args[0])
		return Val{T: sel(eng.ghostRaw(e.cur, e.loop.enumKey), k.T), S: SBool}
	case "visitedset":
		if e.loop == nil || e.loop.enumKey == "" {
			e.fail("visitedset() outside a map/set range loop")
		}
		return Val{T: eng.ghostRaw(e.cur, e.loop.enumKey), S: eng.loopEnumSort[e.loop.enumKey]}
	case "fresh":
		v := e.tr(x.Args[0])
		if e.old == nil {
			e.fail("fresh() needs an old state")
		}
		t := v.T
		if v.S == SSlice {
			t = app("sl_arr", v.T)
		}
		return Val{T: and("(> "+t+" "+e.old.alloc+")", "(<= "+t+" "+e.cur.alloc+")"), S: SBool}
	case "allocated":
		v := e.tr(x.Args[0])
		t := v.T
		if v.S == SSlice {
			t = app("sl_arr", v.T)
		}
		return Val{T: "(<= " + t + " " + e.cur.alloc + ")", S: SBool}
	case "real":
		v := e.tr(x.Args[0])
		if v.S == SInt {
			return Val{T: "(to_real " + v.T + ")", S: SReal}
		}
		return v
	case "shadowed":
		id, ok := x.Args[0].(*ast.Ident)
		if !ok || e.local == nil {
			e.fail("bad shadowed()")
		}
		if v, ok := e.local("^" + id.Name); ok {
			return v
		}
		e.fail("no shadowed variable %s", id.Name)
	case "idx":
		a := e.tr(x.Args[0])
		b := e.tr(x.Args[1])
		return Val{T: app("idx", a.T, b.T), S: SInt}
	case "boxstr":
		v := e.tr(x.Args[0])
		return Val{T: app("boxStr", v.T), S: SInt}
	}
	// Go integer conversion, e.g. uint32(x)
	if id, ok := x.Fun.(*ast.Ident); ok && len(x.Args) == 1 {
		if bt, ok := types.Universe.Lookup(id.Name).(*types.TypeName); ok {
			v := e.tr(x.Args[0])
			return e.fx.convert(v, bt.Type())
		}
		if e.pkg != nil {
			if tn, ok := e.pkg.Scope().Lookup(id.Name).(*types.TypeName); ok {
				v := e.tr(x.Args[0])
				return e.fx.convert(v, tn.Type())
			}
		}
	}
	// prelude function
	if it, ok := eng.prelude.BySym[fname]; ok && (it.Kind == "declare" || it.Kind == "define") {
		if len(it.ArgS) != len(x.Args) {
			e.fail("%s expects %d arguments", fname, len(it.ArgS))
		}
		var args []string
		for i, a := range x.Args {
			v := e.tr(a)
			if v.S != it.ArgS[i] {
				if v.S == SInt && it.ArgS[i] == SReal {
					v.T = "(to_real " + v.T + ")"
				} else {
					e.fail("argument %d of %s has sort %s, want %s (in %s)", i+1, fname, v.S, it.ArgS[i], exprString(x))
				}
			}
			args = append(args, v.T)
		}
		return Val{T: app(fname, args...), S: it.ResS}
	}
	e.fail("unknown function %q in contract", fname)
	return Val{}
}
