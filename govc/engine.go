package main

import (
	"fmt"
	"go/ast"
	"go/constant"
	"go/token"
	"go/types"
	"math/big"
	"os"
	"path/filepath"
	"sort"
	"strings"
	"unicode/utf8"

	"golang.org/x/tools/go/packages"
	"golang.org/x/tools/go/ssa"
	"golang.org/x/tools/go/ssa/ssautil"
)

type Engine struct {
	repo      string
	fset      *token.FileSet
	pkgs      []*packages.Package
	prog      *ssa.Program
	spkg      map[string]*ssa.Package // by package name ("spg", "main")
	ppkg      map[string]*packages.Package
	sorts     *Sorts
	prelude   *Prelude
	contracts *ContractSet
	ghosts    map[string]string // ghost name -> sort

	compSort     map[string]string // heap component -> sort
	compElemInv  map[string]func(term string) string
	compAllocInv map[string]func(term, alloc string) string
	globalsDecl  map[string]string // symbol -> declaration text emitted when mentioned
	globalsOrder []string
	globalAx     map[string][]string // symbol -> assumptions emitted with it
	lits         map[string]string
	litOrder     []string
	nfresh       int
	gaddr        map[*types.Var]string
	gaddrN       int
	loopEnumSort map[string]string
	classConst   map[string]string // value of a class string constant in the source -> prelude constant

	touchCache map[*ssa.Function]map[string]bool
	touchBusy  map[*ssa.Function]bool
	dirtyCache map[*ssa.Function]map[string]bool
	dirtyBusy  map[*ssa.Function]bool

	obligs      []*Obligation
	assumptions map[string]bool
	tier        string
	funcsDone   []string
	pkgContract map[string]*FuncContract // package name -> "//@ package" section
	keyAlias       map[string]string // current function key -> key its contract was written under (renamed functions)
	bareAlias      map[string]string // current bare function name -> old bare name (call-site ghost statements)
	recordedLocals map[string][]localDecl
	renames        map[*ssa.Function]map[string][]string
}

func newEngine(repo, specDir string) (*Engine, error) {
	eng := &Engine{repo: repo, sorts: newSorts(), ghosts: map[string]string{}, compSort: map[string]string{},
		globalsDecl: map[string]string{}, globalAx: map[string][]string{}, lits: map[string]string{},
		gaddr: map[*types.Var]string{}, loopEnumSort: map[string]string{},
		touchCache: map[*ssa.Function]map[string]bool{}, touchBusy: map[*ssa.Function]bool{},
		dirtyCache: map[*ssa.Function]map[string]bool{}, dirtyBusy: map[*ssa.Function]bool{},
		spkg: map[string]*ssa.Package{}, ppkg: map[string]*packages.Package{},
		compElemInv: map[string]func(string) string{}, compAllocInv: map[string]func(string, string) string{}, assumptions: map[string]bool{}}
	cfg := &packages.Config{Mode: packages.LoadAllSyntax, Dir: repo, BuildFlags: []string{"-tags=verif"}, Tests: false,
		Env: append(os.Environ(), "GOFLAGS=-mod=mod", "GOPROXY=off", "GOSUMDB=off", "GOTOOLCHAIN=local")}
	pkgs, err := packages.Load(cfg, "./...")
	if err != nil {
		return nil, err
	}
	nerr := 0
	for _, p := range pkgs {
		for _, e := range p.Errors {
			fmt.Fprintln(os.Stderr, "load error:", e)
			nerr++
		}
	}
	if nerr > 0 {
		return nil, fmt.Errorf("package load errors")
	}
	eng.pkgs = pkgs
	eng.fset = pkgs[0].Fset
	prog, spkgs := ssautil.AllPackages(pkgs, ssa.GlobalDebug)
	prog.Build()
	eng.prog = prog
	for i, sp := range spkgs {
		if sp == nil {
			continue
		}
		eng.spkg[sp.Pkg.Name()] = sp
		eng.ppkg[sp.Pkg.Name()] = pkgs[i]
	}
	// pre-register named struct types so the prelude may mention them
	for _, sp := range spkgs {
		if sp == nil {
			continue
		}
		names := sp.Pkg.Scope().Names()
		sort.Strings(names)
		for _, n := range names {
			if tn, ok := sp.Pkg.Scope().Lookup(n).(*types.TypeName); ok {
				if _, isS := tn.Type().Underlying().(*types.Struct); isS {
					eng.sorts.structOf(tn.Type())
				}
			}
		}
	}
	// the package's character-class constants, by their current value
	eng.classConst = map[string]string{}
	if sp := eng.spkg["spg"]; sp != nil {
		for cn, pn := range map[string]string{"ctUpper": "cls_upper", "ctLower": "cls_lower", "ctDigits": "cls_digits", "ctSymbols": "cls_symbols", "ctAmbiguous": "cls_ambiguous"} {
			if c, ok := sp.Pkg.Scope().Lookup(cn).(*types.Const); ok && c.Val().Kind() == constant.String {
				eng.classConst[constant.StringVal(c.Val())] = pn
			}
		}
	}
	pre, err := loadPrelude(specDir)
	if err != nil {
		return nil, err
	}
	eng.prelude = pre
	// ghost declarations: ";;@ ghost name sort" lines
	files, _ := filepath.Glob(filepath.Join(specDir, "*.smt2"))
	for _, f := range files {
		b, _ := os.ReadFile(f)
		for _, ln := range strings.Split(string(b), "\n") {
			t := strings.TrimSpace(ln)
			if strings.HasPrefix(t, ";;@ ghost ") {
				fs := strings.SplitN(strings.TrimPrefix(t, ";;@ ghost "), " ", 2)
				eng.ghosts[fs[0]] = strings.TrimSpace(fs[1])
			}
		}
	}
	eng.loadRecordedLocals(specDir)
	eng.contracts = &ContractSet{Funcs: map[string]*FuncContract{}}
	eng.pkgContract = map[string]*FuncContract{}
	for _, p := range pkgs {
		for _, gf := range p.GoFiles {
			if filepath.Base(gf) == "verif_contracts.go" {
				cs := &ContractSet{Funcs: map[string]*FuncContract{}}
				if err := parseContractFile(gf, cs); err != nil {
					return nil, err
				}
				if pc := cs.Funcs["package"]; pc != nil {
					// package section: its macros are visible in every contract of the file
					for _, k := range cs.Order {
						fc := cs.Funcs[k]
						if fc == pc {
							continue
						}
						if fc.Defines == nil {
							fc.Defines = map[string]*Define{}
						}
						for n, d := range pc.Defines {
							if _, own := fc.Defines[n]; !own {
								fc.Defines[n] = d
							}
						}
					}
					eng.pkgContract[p.Types.Name()] = pc
				}
				for _, k := range cs.Order {
					key := p.Types.Name() + "." + k
					cs.Funcs[k].Key = key
					eng.contracts.Funcs[key] = cs.Funcs[k]
					eng.contracts.Order = append(eng.contracts.Order, key)
				}
			}
		}
	}
	eng.funcRenames()
	eng.buildHarnessShims()
	return eng, nil
}

// fnKey: the key under which contracts, configurations and obligation names know a function. For a function
// that was renamed in /repo (see funcRenames) it is the name it had when its contract was written.
func (eng *Engine) fnKey(fn *ssa.Function) string {
	k := eng.rawKey(fn)
	if old, ok := eng.keyAlias[k]; ok {
		return old
	}
	return k
}

func (eng *Engine) rawKey(fn *ssa.Function) string {
	if fn.Pkg == nil {
		if fn.Parent() != nil {
			return eng.fnKey(fn.Parent()) + "$" + strings.TrimPrefix(fn.Name(), fn.Parent().Name()+"$")
		}
		return fn.String()
	}
	return fn.Pkg.Pkg.Name() + "." + fn.RelString(fn.Pkg.Pkg)
}

// funcRenames: a contract whose function no longer exists is rebound to the one function of the same package
// (and the same receiver) that has no contract and declares variables of exactly the recorded types in the
// recorded order - i.e. the function was renamed. Recorded in the evidence as a rebinding.
func (eng *Engine) funcRenames() {
	eng.keyAlias = map[string]string{}
	eng.bareAlias = map[string]string{}
	var all []*ssa.Function
	have := map[string]bool{}
	for fn := range ssautil.AllFunctions(eng.prog) {
		if fn.Pkg == nil || fn.Synthetic != "" || fn.Parent() != nil || !eng.ours(fn) {
			continue
		}
		all = append(all, fn)
		have[eng.rawKey(fn)] = true
	}
	sort.Slice(all, func(i, j int) bool { return eng.rawKey(all[i]) < eng.rawKey(all[j]) })
	prefix := func(k string) string { return k[:strings.LastIndex(k, ".")+1] }
	for _, old := range eng.contracts.Order {
		if have[old] || strings.Contains(old, "$") || strings.HasSuffix(old, ".package") || strings.HasSuffix(old, ".init") {
			continue
		}
		rec := eng.recordedLocals[old]
		if len(rec) == 0 {
			continue
		}
		var cands []*ssa.Function
		for _, fn := range all {
			k := eng.rawKey(fn)
			if eng.contracts.Funcs[k] != nil || prefix(k) != prefix(old) {
				continue
			}
			cur := eng.declaredVars(fn)
			if len(cur) != len(rec) {
				continue
			}
			same := true
			for i := range cur {
				if cur[i].Type != rec[i].Type {
					same = false
				}
			}
			if same {
				cands = append(cands, fn)
			}
		}
		if len(cands) == 1 {
			nk := eng.rawKey(cands[0])
			eng.keyAlias[nk] = old
			eng.bareAlias[cands[0].Name()] = old[strings.LastIndex(old, ".")+1:]
			eng.assumptions["contract of "+old+" rebound to "+nk+": the function was renamed (same receiver, same declared variables in the same order, the old name is gone)"] = true
		}
	}
}

func (eng *Engine) contractOf(fn *ssa.Function) *FuncContract {
	return eng.contracts.Funcs[eng.fnKey(fn)]
}

func (eng *Engine) findFunc(key string) *ssa.Function {
	for fn := range ssautil.AllFunctions(eng.prog) {
		if fn.Pkg != nil && (fn.Pkg.Pkg.Name() == "spg" || fn.Pkg.Pkg.Name() == "main") || fn.Parent() != nil {
			if eng.fnKey(fn) == key && (fn.Synthetic == "" || (fn.Name() == "init" && fn.Parent() == nil)) {
				return fn
			}
		}
	}
	return nil
}

func (eng *Engine) freshName(prefix string) string {
	eng.nfresh++
	return fmt.Sprintf("%s!%d", mangle(prefix), eng.nfresh)
}

func (eng *Engine) fresh(st *State, prefix, srt string) string {
	n := eng.freshName(prefix)
	st.add("(declare-const " + n + " " + srt + ")")
	return n
}

// define introduces a named constant equal to term (keeps terms small).
func (eng *Engine) define(st *State, prefix, srt, term string) string {
	if len(term) < 24 && !strings.Contains(term, "(") {
		return term
	}
	n := eng.fresh(st, prefix, srt)
	st.add("(assert (= " + n + " " + term + "))")
	return n
}

func (eng *Engine) regComp(comp, srt string) {
	if _, ok := eng.compSort[comp]; !ok {
		eng.compSort[comp] = srt
		name := comp + "_0"
		eng.globalsDecl[name] = "(declare-const " + name + " " + srt + ")"
		eng.globalsOrder = append(eng.globalsOrder, name)
	}
}

// regSet registers the ghost heap of golang-set sets. Model invariant: every set holds only
// one-character valid UTF-8 strings (re-established by an obligation at every Add).
func (eng *Engine) regSet() {
	if _, ok := eng.compSort[setHeap]; ok {
		return
	}
	eng.regComp(setHeap, "(Array Int (Array Str Bool))")
	eng.compElemInv[setHeap] = func(h string) string {
		return "(forall ((p! Int) (c! Str)) (! (=> (select (select " + h + " p!) c!) (and (= (clen c!) 1) (utf8ok c!))) :pattern ((select (select " + h + " p!) c!))))"
	}
	eng.globalAx[setHeap+"_0"] = append(eng.globalAx[setHeap+"_0"], eng.compElemInv[setHeap](setHeap+"_0"))
}

// regBig registers the ghost heaps of math/big values: pointer -> mathematical value.
func (eng *Engine) regBig() {
	eng.regComp(bigIHeap, "(Array Int Int)")
	eng.regComp(bigFHeap, "(Array Int Real)")
}

func (eng *Engine) regMap(m *types.Map) {
	ks, vs := eng.sorts.sortOf(m.Key()), eng.sorts.sortOf(m.Elem())
	eng.regComp(mapDom(m), "(Array Int (Array "+ks+" Bool))")
	eng.regComp(mapVal(m), "(Array Int (Array "+ks+" "+vs+"))")
	eng.regComp(mapLen, "(Array Int Int)")
}

func (eng *Engine) regPtr(elem types.Type) string {
	comp := ptrHeap(elem)
	if _, ok := eng.compSort[comp]; !ok {
		eng.regComp(comp, "(Array Int "+eng.sorts.sortOf(elem)+")")
		if inv := eng.sorts.typeInv(elem, "(select @H p!)"); inv != "" {
			eng.compElemInv[comp] = func(h string) string {
				return "(forall ((p! Int)) (! " + strings.ReplaceAll(inv, "@H", h) + " :pattern ((select " + h + " p!))))"
			}
			eng.globalAx[comp+"_0"] = append(eng.globalAx[comp+"_0"], eng.compElemInv[comp](comp+"_0"))
		}
		if inv := eng.sorts.allocInv(elem, "(select @H p!)", "@A"); inv != "" {
			eng.compAllocInv[comp] = func(h, al string) string {
				return "(forall ((p! Int)) (! " + strings.ReplaceAll(strings.ReplaceAll(inv, "@H", h), "@A", al) + " :pattern ((select " + h + " p!))))"
			}
			eng.globalAx[comp+"_0"] = append(eng.globalAx[comp+"_0"], eng.compAllocInv[comp](comp+"_0", "alloc_0"))
		}
	}
	return comp
}

func (eng *Engine) regSlice(elem types.Type) string {
	comp := sliceHeap(elem)
	if _, ok := eng.compSort[comp]; !ok {
		es := eng.sorts.sortOf(elem)
		eng.regComp(comp, "(Array Int (Array Int "+es+"))")
		if inv := eng.sorts.typeInv(elem, "(select (select @H a!) i!)"); inv != "" {
			eng.compElemInv[comp] = func(h string) string {
				return "(forall ((a! Int) (i! Int)) (! " + strings.ReplaceAll(inv, "@H", h) + " :pattern ((select (select " + h + " a!) i!))))"
			}
			eng.globalAx[comp+"_0"] = append(eng.globalAx[comp+"_0"], eng.compElemInv[comp](comp+"_0"))
		}
		if inv := eng.sorts.allocInv(elem, "(select (select @H a!) i!)", "@A"); inv != "" {
			eng.compAllocInv[comp] = func(h, al string) string {
				return "(forall ((a! Int) (i! Int)) (! " + strings.ReplaceAll(strings.ReplaceAll(inv, "@H", h), "@A", al) + " :pattern ((select (select " + h + " a!) i!))))"
			}
			eng.globalAx[comp+"_0"] = append(eng.globalAx[comp+"_0"], eng.compAllocInv[comp](comp+"_0", "alloc_0"))
		}
	}
	return comp
}

func (eng *Engine) heapGet(st *State, comp string) string {
	if t, ok := st.heap[comp]; ok {
		return t
	}
	if _, ok := eng.compSort[comp]; !ok {
		panic("heap component not registered: " + comp)
	}
	return comp + "_0"
}

func (eng *Engine) heapSet(st *State, comp, term string) {
	n := eng.fresh(st, comp, eng.compSort[comp])
	st.add("(assert (= " + n + " " + term + "))")
	st.heap[comp] = n
}

// heapHavoc replaces a component by an unconstrained one (plus element type invariants).
func (eng *Engine) heapHavoc(st *State, comp string) string {
	n := eng.fresh(st, comp, eng.compSort[comp])
	st.heap[comp] = n
	if f, ok := eng.compElemInv[comp]; ok {
		st.assume(f(n))
	}
	if f, ok := eng.compAllocInv[comp]; ok {
		st.assume(f(n, st.alloc))
	}
	return n
}

func (eng *Engine) ghostGet(st *State, name string) string {
	if t, ok := st.ghost[name]; ok {
		return t
	}
	g := name + "_0"
	if _, ok := eng.globalsDecl[g]; !ok {
		eng.globalsDecl[g] = "(declare-const " + g + " " + eng.ghosts[name] + ")"
		eng.globalsOrder = append(eng.globalsOrder, g)
	}
	return g
}

func (eng *Engine) ghostRaw(st *State, key string) string {
	if t, ok := st.ghost[key]; ok {
		return t
	}
	panic("ghost state " + key + " not initialised")
}

func (eng *Engine) strLit(s string) string {
	if s == "" {
		return "eps"
	}
	if n, ok := eng.lits[s]; ok {
		return n
	}
	n := fmt.Sprintf("lit!%d", len(eng.lits)+1)
	eng.lits[s] = n
	eng.litOrder = append(eng.litOrder, s)
	return n
}

// litDecls returns declarations and facts for the string literals mentioned in txt.
func (eng *Engine) litDecls(syms map[string]bool) string {
	var used []string
	for _, s := range eng.litOrder {
		if syms[eng.lits[s]] {
			used = append(used, s)
		}
	}
	if len(used) == 0 {
		return ""
	}
	var b strings.Builder
	for _, s := range used {
		n := eng.lits[s]
		nr := len([]rune(s))
		// strings.Split(s, "") semantic: invalid bytes count one each, same as []rune conversion count
		fmt.Fprintf(&b, "(declare-const %s Str)\n(assert (= (blen %s) %d))\n(assert (= (clen %s) %d))\n(assert (not (= %s eps)))\n", n, n, len(s), n, nr, n)
		if utf8.ValidString(s) && syms["utf8ok"] {
			fmt.Fprintf(&b, "(assert (utf8ok %s))\n", n)
		}
		if cn, ok := eng.classConst[s]; ok && syms[cn] {
			fmt.Fprintf(&b, "(assert (= %s %s))\n", n, cn)
		}
	}
	if len(used) > 1 {
		b.WriteString("(assert (distinct")
		for _, s := range used {
			b.WriteString(" " + eng.lits[s])
		}
		b.WriteString("))\n")
	}
	return b.String()
}

func (eng *Engine) constVal(c constant.Value, t types.Type) Val {
	srt := eng.sorts.sortOf(t)
	if c == nil {
		return Val{T: eng.sorts.zero(t), S: srt, GT: t}
	}
	switch c.Kind() {
	case constant.Bool:
		if constant.BoolVal(c) {
			return Val{T: "true", S: SBool, GT: t}
		}
		return Val{T: "false", S: SBool, GT: t}
	case constant.String:
		return Val{T: eng.strLit(constant.StringVal(c)), S: SStr, GT: t}
	case constant.Int:
		n, _ := new(big.Int).SetString(c.ExactString(), 10)
		if srt == SReal {
			return Val{T: smtRat(new(big.Rat).SetInt(n)), S: SReal, GT: t}
		}
		return Val{T: smtInt(n), S: SInt, GT: t}
	case constant.Float:
		r, ok := new(big.Rat).SetString(c.ExactString())
		if !ok {
			f, _ := constant.Float64Val(c)
			r = new(big.Rat).SetFloat64(f)
		}
		if srt == SInt {
			return Val{T: smtInt(new(big.Int).Quo(r.Num(), r.Denom())), S: SInt, GT: t}
		}
		return Val{T: smtRat(r), S: SReal, GT: t}
	}
	panic("unsupported constant " + c.String())
}

func (eng *Engine) globalAddr(v *types.Var) string {
	if a, ok := eng.gaddr[v]; ok {
		return a
	}
	eng.gaddrN++
	a := fmt.Sprintf("(- %d)", eng.gaddrN)
	eng.gaddr[v] = a
	return a
}

func (eng *Engine) allImports(p *types.Package) []*types.Package {
	return p.Imports()
}

// astFuncOf returns the syntax node of a function.
func (eng *Engine) bodyOf(fn *ssa.Function) ast.Node {
	return fn.Syntax()
}

func (eng *Engine) typesInfo(fn *ssa.Function) *types.Info {
	f := fn
	for f.Parent() != nil {
		f = f.Parent()
	}
	if f.Pkg == nil {
		return nil
	}
	for _, p := range eng.pkgs {
		if p.Types == f.Pkg.Pkg {
			return p.TypesInfo
		}
	}
	return nil
}
