package main

import (
	"flag"
	"fmt"
	"os"
	"sort"
	"strings"
)

func (eng *Engine) verifyFunc(key string) {
	fn := eng.findFunc(key)
	if fn == nil {
		eng.obligs = append(eng.obligs, &Obligation{Func: key, Kind: "bind", Name: "function-exists", Goal: "false", Result: "stale",
			Raw: "STALE-CONTRACT: function " + key + " not found in /repo"})
		return
	}
	fc := eng.contracts.Funcs[key]
	fx := &FnExec{eng: eng, fn: fn, fc: fc, maxPath: 20000}
	fx.merge = os.Getenv("GOVC_MERGE") != "0"
	if fc != nil && fc.NoMerge {
		fx.merge = false
	}
	if fc != nil {
		seen := map[string]bool{}
		for _, cs := range [][]*Clause{fc.Requires, fc.Ensures, fc.Panics, fc.Invs} {
			for _, c := range cs {
				for _, p := range c.Props {
					if !seen[p] {
						seen[p] = true
						fx.props = append(fx.props, p)
					}
				}
			}
		}
		sort.Strings(fx.props)
	}
	func() {
		defer func() {
			if r := recover(); r != nil {
				if ue, ok := r.(unsupportedErr); ok {
					eng.obligs = append(eng.obligs, &Obligation{Func: key, Kind: "subset", Name: "supported", Props: fx.props, Goal: "false",
						Result: "unknown", Raw: "outside the verified subset: " + ue.msg})
					return
				}
				panic(r)
			}
		}()
		fx.run()
	}()
	eng.funcsDone = append(eng.funcsDone, key)
}

func main() {
	if len(os.Args) < 2 {
		fmt.Println("usage: govc verify|check|lemmas ...")
		os.Exit(2)
	}
	switch os.Args[1] {
	case "verify":
		fs := flag.NewFlagSet("verify", flag.ExitOnError)
		repo := fs.String("repo", "/repo", "")
		spec := fs.String("spec", "/verif/spec", "")
		funcs := fs.String("funcs", "", "comma-separated function keys (default: all with contracts)")
		out := fs.String("out", "/verif/out/verify", "")
		timeout := fs.Int("timeout", 10, "")
		verbose := fs.Bool("v", false, "")
		fs.Parse(os.Args[2:])
		eng, err := newEngine(*repo, *spec)
		if err != nil {
			fmt.Println("engine:", err)
			os.Exit(2)
		}
		var keys []string
		if *funcs != "" {
			keys = strings.Split(*funcs, ",")
		} else {
			for _, k := range eng.contracts.Order {
				if fc := eng.contracts.Funcs[k]; !fc.Inline && !fc.Trusted {
					keys = append(keys, k)
				}
			}
		}
		for _, k := range keys {
			eng.verifyFunc(k)
		}
		eng.solveAll(*out, *timeout, 16)
		bad := 0
		byID := map[string][]*Obligation{}
		var ids []string
		for _, o := range eng.obligs {
			if _, ok := byID[o.ID()]; !ok {
				ids = append(ids, o.ID())
			}
			byID[o.ID()] = append(byID[o.ID()], o)
		}
		for _, id := range ids {
			os := byID[id]
			ok := true
			var tmax float64
			anyLive := false
			for _, o := range os {
				good := o.Result == "unsat"
				if o.Canary {
					good = true
					if o.Result != "unsat" {
						anyLive = true
					}
				}
				if !good {
					ok = false
				}
				if o.Time > tmax {
					tmax = o.Time
				}
			}
			if os[0].Canary && !anyLive {
				ok = false
			}
			if !ok {
				bad++
			}
			if !ok || *verbose {
				st := "ok  "
				if !ok {
					st = "FAIL"
				}
				fmt.Printf("%s %-70s paths=%d tmax=%.2fs\n", st, id, len(os), tmax)
				if !ok {
					for _, o := range os {
						good := o.Result == "unsat"
						if o.Canary {
							good = o.Result != "unsat"
						}
						if !good {
							fmt.Printf("      -> %s (%s) %s %s\n", o.Result, o.Solver, o.File, firstLines(o.Raw, 2))
							if len(o.Model) > 0 {
								fmt.Printf("         model: %v\n", o.Model)
							}
						}
					}
				}
			}
		}
		fmt.Printf("%d obligations (%d queries), %d failing\n", len(ids), len(eng.obligs), bad)
		if bad > 0 {
			os.Exit(1)
		}
	case "check":
		os.Exit(runCheck(os.Args[2:]))
	default:
		fmt.Println("unknown command")
		os.Exit(2)
	}
}
