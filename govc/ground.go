package main

// E3: ground obligations - facts about constants, package-level initialisers and the
// embedded lists, decided by evaluating the typed AST of /repo's current source (no solver).
// The expected values are taken from the statement of property C16.

import (
	"bufio"
	"fmt"
	"go/ast"
	"go/constant"
	"go/token"
	"go/types"
	"os"
	"path/filepath"
	"strings"
)

func gOb(name string, ok bool, why string, input interface{}, observed, required string) *Obligation {
	o := &Obligation{Func: "spg", Kind: "ground", Name: name, Props: []string{"C16"}, Solver: "E3"}
	if ok {
		o.Result = "holds"
	} else {
		o.Result = "violated"
		o.Raw = why
		o.Input, o.Observed, o.Required = input, observed, required
	}
	return o
}

func (eng *Engine) groundC16() ([]*Obligation, map[string]interface{}) {
	var out []*Obligation
	pk := eng.ppkg["spg"]
	scope := pk.Types.Scope()
	constStr := func(name string) (string, bool) {
		c, ok := scope.Lookup(name).(*types.Const)
		if !ok || c.Val().Kind() != constant.String {
			return "", false
		}
		return constant.StringVal(c.Val()), true
	}
	constInt := func(name string) (int64, bool) {
		c, ok := scope.Lookup(name).(*types.Const)
		if !ok {
			return 0, false
		}
		v, exact := constant.Int64Val(constant.ToInt(c.Val()))
		return v, exact
	}
	// character classes
	classes := map[string]string{"ctUpper": "ABCDEFGHIJKLMNOPQRSTUVWXYZ", "ctLower": "abcdefghijklmnopqrstuvwxyz", "ctDigits": "0123456789", "ctSymbols": "!@.-_*", "ctAmbiguous": "0O1Il5S"}
	for _, n := range []string{"ctUpper", "ctLower", "ctDigits", "ctSymbols", "ctAmbiguous"} {
		got, ok := constStr(n)
		out = append(out, gOb("class."+n, ok && got == classes[n], "character class differs from the documented one", map[string]string{"constant": n}, fmt.Sprintf("%q", got), fmt.Sprintf("%q", classes[n])))
	}
	flags := map[string]int64{"Uppers": 1, "Lowers": 2, "Digits": 4, "Symbols": 8, "Ambiguous": 16, "None": 0, "Letters": 3, "All": 15}
	for _, n := range []string{"Uppers", "Lowers", "Digits", "Symbols", "Ambiguous", "None", "Letters", "All"} {
		got, ok := constInt(n)
		out = append(out, gOb("flag."+n, ok && got == flags[n], "flag value differs (distinct single bits; Letters = Uppers|Lowers; All = Letters|Digits|Symbols)", map[string]string{"constant": n}, fmt.Sprint(got), fmt.Sprint(flags[n])))
	}
	// package-level initialisers
	initOf := func(name string) ast.Expr {
		v, ok := scope.Lookup(name).(*types.Var)
		if !ok {
			return nil
		}
		return eng.globalInit(v)
	}
	valOf := func(e ast.Expr) constant.Value {
		if e == nil {
			return nil
		}
		return pk.TypesInfo.Types[e].Value
	}
	// flag -> class table
	{
		want := map[int64]string{1: classes["ctUpper"], 2: classes["ctLower"], 4: classes["ctDigits"], 8: classes["ctSymbols"], 16: classes["ctAmbiguous"]}
		got := map[int64]string{}
		ok := false
		if cl, isCL := initOf("charTypeByFlag").(*ast.CompositeLit); isCL {
			ok = true
			for _, el := range cl.Elts {
				kv, isKV := el.(*ast.KeyValueExpr)
				if !isKV || valOf(kv.Key) == nil || valOf(kv.Value) == nil {
					ok = false
					break
				}
				k, _ := constant.Int64Val(constant.ToInt(valOf(kv.Key)))
				got[k] = constant.StringVal(valOf(kv.Value))
			}
		}
		same := ok && len(got) == len(want)
		for k, v := range want {
			if got[k] != v {
				same = false
			}
		}
		out = append(out, gOb("table.charTypeByFlag", same, "flag-to-class table differs", nil, fmt.Sprint(got), fmt.Sprint(want)))
	}
	{
		v := valOf(initOf("MaxTrials"))
		n, _ := int64(0), false
		if v != nil {
			n, _ = constant.Int64Val(constant.ToInt(v))
		}
		out = append(out, gOb("default.MaxTrials", v != nil && n == 200, "retry budget default differs", nil, fmt.Sprint(v), "200"))
		f := valOf(initOf("MaxFailRate"))
		okf := false
		if f != nil {
			x, _ := constant.Float64Val(f)
			okf = x == 1e-9
		}
		out = append(out, gOb("default.MaxFailRate", okf, "tolerated failure probability default differs", nil, fmt.Sprint(f), "1e-09"))
	}
	// separator presets: NewSFFunction(CharRecipe{Length: k, Allow: a, Exclude: x}) with nothing else
	type preset struct{ length, allow, exclude int64 }
	presets := map[string]preset{"SFDigits1": {1, 4, 0}, "SFDigits2": {2, 4, 0}, "SFDigitsNoAmbiguous1": {1, 4, 16}, "SFDigitsNoAmbiguous2": {2, 4, 16}, "SFSymbols": {1, 8, 0}, "SFDigitsSymbols": {1, 12, 0}}
	for _, name := range []string{"SFDigits1", "SFDigits2", "SFDigitsNoAmbiguous1", "SFDigitsNoAmbiguous2", "SFSymbols", "SFDigitsSymbols"} {
		want := presets[name]
		got := preset{}
		ok := false
		extra := ""
		if call, isCall := initOf(name).(*ast.CallExpr); isCall && types.ExprString(call.Fun) == "NewSFFunction" && len(call.Args) == 1 {
			if cl, isCL := call.Args[0].(*ast.CompositeLit); isCL && types.ExprString(cl.Type) == "CharRecipe" {
				ok = true
				for _, el := range cl.Elts {
					kv, isKV := el.(*ast.KeyValueExpr)
					if !isKV || valOf(kv.Value) == nil {
						ok = false
						break
					}
					n, _ := constant.Int64Val(constant.ToInt(valOf(kv.Value)))
					switch types.ExprString(kv.Key) {
					case "Length":
						got.length = n
					case "Allow":
						got.allow = n
					case "Exclude":
						got.exclude = n
					default:
						extra = types.ExprString(kv.Key)
						ok = false
					}
				}
			}
		}
		out = append(out, gOb("preset."+name, ok && got == want, "separator preset is not the documented recipe "+extra, map[string]string{"preset": name}, fmt.Sprintf("%+v", got), fmt.Sprintf("%+v", want)))
	}
	{
		ok := false
		if fl, isFL := initOf("SFNone").(*ast.FuncLit); isFL && len(fl.Body.List) == 1 {
			if rs, isR := fl.Body.List[0].(*ast.ReturnStmt); isR && len(rs.Results) == 2 {
				v0 := valOf(rs.Results[0])
				v1 := valOf(rs.Results[1])
				if v0 != nil && v0.Kind() == constant.String && constant.StringVal(v0) == "" && v1 != nil {
					f, _ := constant.Float64Val(constant.ToFloat(v1))
					ok = f == 0
				}
			}
		}
		out = append(out, gOb("preset.SFNone", ok, "SFNone is not the constant empty separator with zero entropy", nil, "", `func() (string, FloatE) { return "", 0 }`))
	}
	// embedded lists against their source data files
	entries := 0
	for _, l := range []struct{ v, file string }{{"AgileWords", "testdata/agwordlist.txt"}, {"AgileSyllables", "testdata/agsyllables.txt"}} {
		var words []string
		litOK := false
		if cl, isCL := initOf(l.v).(*ast.CompositeLit); isCL {
			litOK = true
			for _, el := range cl.Elts {
				bl, isB := el.(*ast.BasicLit)
				if !isB || bl.Kind != token.STRING || valOf(el) == nil {
					litOK = false
					break
				}
				words = append(words, constant.StringVal(valOf(el)))
			}
		}
		var lines []string
		if f, err := os.Open(filepath.Join(eng.repo, l.file)); err == nil {
			sc := bufio.NewScanner(f)
			for sc.Scan() {
				lines = append(lines, sc.Text())
			}
			f.Close()
		}
		bad := ""
		var badIn interface{}
		if !litOK {
			bad = "initialiser is not a literal list of strings"
		} else if len(words) != len(lines) {
			bad = fmt.Sprintf("%d entries, data file has %d lines", len(words), len(lines))
		} else {
			seen := map[string]int{}
			for i, w := range words {
				entries++
				if w != lines[i] {
					bad = fmt.Sprintf("entry %d is %q, line %d of %s is %q", i, w, i+1, l.file, lines[i])
					badIn = map[string]interface{}{"list": l.v, "index": i}
					break
				}
				if w != strings.ToLower(w) {
					bad = fmt.Sprintf("entry %d %q is not lower-case", i, w)
					badIn = map[string]interface{}{"list": l.v, "index": i}
					break
				}
				if j, dup := seen[w]; dup {
					bad = fmt.Sprintf("entries %d and %d are both %q", j, i, w)
					badIn = map[string]interface{}{"list": l.v, "index": i}
					break
				}
				seen[w] = i
			}
		}
		out = append(out, gOb("list."+l.v, bad == "", bad, badIn, bad, "identical to "+l.file+", duplicate-free, lower-case"))
	}
	cov := map[string]interface{}{"ground_entries_compared": entries, "exhaustive": true}
	return out, cov
}
